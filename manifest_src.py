"""Source of MANIFEST.json (bin/mkmanifest). One entry per property actually claimed."""
E1 = "E1 CBMC-C contracts on mechanically extracted function text"
E2 = "E2 SYM-VC: real templates instantiated at a term-building scalar, VCs discharged by SMT"
TB_E1 = ("Trusted: cbmc 6.11 (C front end, --dfcc contract instrumentation, SAT back end); the textual C++->C extraction rules "
         "(logged per run, must-fire rules abort with exit 2 on drift); assumed contracts on std:: helpers and TFEL element access listed in the evidence file.")
ENGINES = [
    {"name": "E1", "path": "engines/cbmcc", "serves_properties": [], "kind_free_text": E1},
    {"name": "E2", "path": "engines/symvc", "serves_properties": [], "kind_free_text": E2},
]
NOTES = ("Contract-based deductive verification; see DESIGN.md. exit 0 = all obligations discharged; exit 1 = a failed obligation "
         "(VIOLATION line, replay file); exit 2 = undecided (timeout, extraction drift, tool error) with UNDECIDED lines and no VIOLATION line.")

CLAIMED = {
    "C04": dict(engine="E1", technique="CBMC function contracts (requires/ensures/assigns) enforced with goto-instrument --dfcc on extracted C text; loop-free, complete over all doubles",
                text="Proof for all non-NaN double triples, all 3x3 double matrices and the three orderings: sortEigenValues, SortEigenValues<2|3>::exe, SortEigenVectors<2|3>::exe, fses::sort "
                     "return a sorted permutation with eigenvector columns permuted alike (2D: in-plane pair only); the stensor::computeEigenValues/Vectors(o) callers are proved against the sorters' contracts with the eigen solver as a stub.",
                note=TB_E1 + " Eigen solver itself (accuracy) is C03, not covered."),
}
CLAIMED["C16"] = dict(engine="E1", technique="CBMC function contracts on extracted C text, enforced per function (isnan/isfinite checked against fpclassify's contract); complete over all 2^32/2^64/2^80 bit patterns",
    text="Proof over every float, double and x87 long double bit pattern: fpclassify equals the IEEE-754 field definition and CBMC's own isnan/isinf/isnormal (float, double), and for the 80-bit format equals the 12-row class table read from the platform libc at check time; isnan/isfinite are the matching predicates. -ffast-math independence rests on a supporting static fact (no floating-point operation in the bodies).",
    note=TB_E1 + " long double is verified on its {uint64,uint16} x87 image (bit_cast assumed = object representation); compiler correctness under -ffast-math for integer-only code is trusted, not proved.")
TB_E2 = ("Trusted: g++ 12.2 template instantiation; vsym (term-building scalar, path scheduler, SMT-LIB emitter, ~900 lines); z3 5.1 / cvc5 1.0.3 / z3 4.8.12; "
         "machine arithmetic treated as mathematical (real arithmetic: no rounding, overflow, NaN); decimal literals read as the simplest rational rounding to them.")
CLAIMED["C01"] = dict(engine="E2", technique="contracts (requires/ensures over the Mandel matrix map) on the unmodified stensor templates instantiated at a symbolic scalar; one SMT (QF_NRA) verification condition per path and clause",
    text="Proof over the reals, N=1,2,3: trace, det, invert, square, symmetric_product, deviator, sigmaeq, contraction, change_basis/changeBasis, buildFromMatrix, Id, importTab/exportTab/importVoigt/import/write, "
         "get/setComponent (with frame) and the diadic-product builders equal the same operation on the 3x3 symmetric matrix, for every input; the only discrepancy left is rounding.",
    note=TB_E2 + " Rounding magnitude and tiny/huge-scale overflow are not covered.")
CLAIMED["C27"] = dict(engine="E1", technique="CBMC function contracts with ghost state for exceptions and warnings; tensor overloads verified against the scalar checks' contracts (--replace-call-with-contract); loop-free, complete over all doubles and policies",
    text="Proof for all doubles (NaN and infinities included), all bounds and the three policies: each of the 6 scalar checks (plain and quantity overloads) and the 18 stensor<1|2|3> overloads throws iff out of bounds under Strict "
         "(reporting the first offending component), never throws and warns once per offending component under Warning, does nothing under None; bounds inclusive. 'Physical bounds are always strict' is a supporting static fact on the emitter text, not a proof.",
    note=TB_E1 + " The bodies of throw*/display* in src/Material/BoundsCheck.cxx are not under contract ([[noreturn]] trusted); message strings are dropped.")
CLAIMED["C51"] = dict(engine="E1", technique="CBMC function contracts + loop contracts (inductive invariants with ghost row index and ghost failing-row witness) on extracted C text; the loop body is additionally verified loop-free as a row function; SMT (cvc5, FP theory) back end with SAT fall-back",
    text="Proof over all doubles (NaN, infinities, signed zeros), all finite non-negative tolerances: for the Absolute, Relative, RelativeAndAbsolute and Mixed comparisons, success implies every row is finite and within tolerance and failure implies some row is not "
         "(hence self-comparison of a finite column succeeds); MTest AnalyticalTest::check and ReferenceFileComparisonTest::check pass iff value and reference are finite and within eps. AreaComparison is excluded.",
    note=TB_E1 + " Columns are is_fresh objects of at most 2^20 rows (the inductive loop argument does not depend on the bound); tolerance expressions are evaluated in the same double arithmetic as the code; message/log statements are deleted by must-fire rules.")
CLAIMED["C39"] = dict(engine="E1", technique="CBMC function contract on the extracted text of mfront::gb::integrate / computePredictionOperator with ghost state and nondeterministic stubs for the Behaviour members; exception flow rendered with goto; loop-free, complete over all doubles K[0], all policies, 8 trait variants",
    text="Proof for every double K[0] (NaN, infinities, non-integers), every policy and every outcome of the Behaviour members: exactly one of integration / prediction is requested with the operator kind documented for Ke (after removing the +100 speed-of-sound flag); "
         "the speed of sound is computed iff K[0] > 50 with the documented density; the return code is -1 iff a failure source fired or the request is unsupported, else 0/1 from the proposed time-step factor (min of the a-priori and a-posteriori factors); the policy reaches the behaviour unchanged. Strict/Warning/None behaviour itself is C27.",
    note=TB_E1 + " Behaviour members are assumed contracts (any return value, may throw); FiniteStrain K[1]/K[2] decoding and exportTangentOperator variants are not under contract.")
CLAIMED["C40"] = dict(engine="E1", technique="frame condition (ghost version counter of the output state) in the CBMC contract of the extracted mfront::gb::integrate, one failure source per stub, exception model with ghost in-flight flag",
    text="Proof for all inputs and all failure injections (false from initialize / time-step scaling, FAILURE from integrate, an exception from any user-code member including the energy and speed-of-sound computations): "
         "a call returning -1 never writes the output state d.s1; a successful integration exports exactly once; a prediction request never touches it.",
    note=TB_E1 + " d.s1 is abstracted by a ghost version counter bumped by exportStateData and the energy stores; exportStateData itself is assumed not to throw.")
CLAIMED["C21"] = dict(engine="E2", technique="contracts over textbook elasticity definitions on the unmodified moduli/stiffness templates instantiated at a symbolic scalar; one SMT (QF_NRA) verification condition per clause and path",
    text="Proof over the reals for all admissible constants: the six moduli conversions and their round trips, computeLambda/computeMu, computeIsotropicStiffnessTensor (= Hooke's law, symmetric, positive definite, moduli recovered by computeKGModuli/computeKappaMu, accepted by isIsotropic for any eps>0), "
         "the 3D orthotropic tensor (= inverse of the engineering compliance) and, for all 7 modelling hypotheses x {UNALTERED, ALTERED}, the isotropic and orthotropic tensors equal the sub-block / plane-stress condensation of the 3D tensor. One known finding (AxisymmetricalGeneralisedPlaneStress ALTERED) is listed in known_findings.txt.",
    note=TB_E2 + " DEFAULT axes convention only (PIPE/PLATE: C28). Uninitialised tensor entries are invisible to the symbolic scalar (it default-initialises to 0).")
CLAIMED["C06"] = dict(engine="E2", technique="contracts 'helper output = exact symbolic derivative of the primal function's output' on the unmodified templates instantiated at a symbolic scalar (both sides are real code); SMT (QF_NRA) per clause",
    text="Proof over the reals, N=1,2,3: computeDeterminantDerivative / SecondDerivative and the deviator-determinant versions (stensor), st2tost2::dsquare, t2tost2::dCdF and dBdF (with C=F^T F, B=F F^T), t2tot2::tpld/tprd, and the tensor determinant first and second derivatives equal the derivative of the corresponding function for every argument. "
         "Eigen-tensor derivatives, Green-Lagrange and PK1 conversions are not yet under contract.",
    note=TB_E2 + " vsym's differentiation rules are trusted; derivative obligations have no double-precision replay (no-failing-input-found on failure).")
CLAIMED["C10"] = dict(engine="E2", technique="contracts on the unmodified CubicRoots::exe/find_roots instantiated at a symbolic scalar (cube and square roots as constrained variables, every tolerance test a path split); SMT (QF_NRA) per path and clause, Cardano's formula through a chain of proved lemmas (cut rule)",
    text="Proof over the reals of the exact cases the statement singles out, for every cubic with non-negligible leading coefficient: p=0 (one real root -cbrt(q), announced and among the returned values; triple root when q=0), q=0 (one root for p>0, three for p<0, all genuine), vanishing discriminant (simple and double root genuine), and the one-real-root Cardano branch (x1 is a root) for every (a1,a0) at three fixed (a3,a2) pairs; the count is always 1 or 3. "
         "The three-distinct-real-roots trigonometric branch, the residual-vs-multiplicity accuracy statement and the Newton refinement `improve` are not covered.",
    note=TB_E2 + " cos/sin/atan2 are uninterpreted (trigonometric branch out of reach); tolerance thresholds are exact only at zero over the reals, so inputs are kept away from them by the preconditions; Cardano's branch is symbolic in (a1,a0) only.")
CLAIMED["C46"] = dict(engine="E1", technique="data-structure invariant over ghost state (value of the named semaphore + units held by this and by the other processes) as pre/postcondition of every operation of MFrontLock/MFrontLockGuard, process exit included; CBMC function contracts on extracted C text with POSIX semaphore calls as assumed-contract stubs; loop-free",
    text="Invariant proof over all histories and interleavings (given atomic semaphore operations): the constructor, lock, unlock, the destructor run at normal process exit and the guard's constructor/destructor each preserve 'value + units held == 1' from every admissible state, "
         "so at most one process is inside a guarded section and the semaphore never carries more units than it was created with; lock returns as the only holder; a normally exiting process leaves the value as found. Violations are replayed natively on the real MFrontLock.cxx (semaphore value before/after child processes).",
    note=TB_E1 + " Kernel atomicity and the POSIX semantics of sem_open/sem_wait/sem_post/sem_close are assumed contracts; abnormal termination inside a critical section, the Windows mutex branch and leftovers of earlier defective runs are not covered; 'the lock is used only through the guard' is a supporting static fact (grep).")
CLAIMED["C30"] = dict(engine="E1", technique="CBMC function contracts + loop contracts on the extracted text of ProcessManager::setProcessExitStatus / sigChildHandler / wait / execute, with a per-process representation invariant over ghost kernel state; every order of child exit, SIGCHLD handler and waitpid enters through the nondeterministic POSIX waitpid stub, which may run the extracted handler first; the libc W* helpers are the real C file of /repo",
    text="Proof for all 2^32 wait statuses and all sequential orders of child exit, handler and waitpid (handler before, inside via EINTR, or after the blocking waitpid; child reaped by either): setProcessExitStatus records exit value or signal death exactly as the kernel status says; the handler keeps every registered process record consistent; "
         "wait returns only once the child is reaped and the recorded status is the child's; execute succeeds exactly when the child exited with status 0. True parallel execution of the handler on another thread (data race, mutex) is not modelled; createProcess/pipe plumbing is a stub.",
    note=TB_E1 + " waitpid/closeProcessFiles/findProcess/createProcess are assumed-contract stubs; a process's pid is its identity (no pid reuse); at most 16 registered processes in the ghost arrays; glibc's WIFSIGNALED narrowing conversion is exempt from --conversion-check.")
CLAIMED["C09"] = dict(engine="E1", technique="CBMC function contracts on the extracted text of BissectionAlgorithmBase (haveSameSign, updateBounds, getNextRootEstimate, iterate) and a loop contract (inductive invariant + decreases) on the main loop of scalarNewtonRaphson, which is verified against the members' contracts; user function and criterion are nondeterministic stubs with ghost evaluation records; doubles bit-precise (NaN, infinities, overflow)",
    text="Proof for all doubles, all iteration budgets and arbitrary (even non-deterministic) user functions and criteria: convergence is reported only at a finite root at which the function was actually evaluated to a finite value and the criterion accepted exactly that (value, root, iteration); the iteration count never exceeds im and evaluations are bounded by 3+2*iterations; the loop terminates; "
         "a valid bracket stays valid and only shrinks, non-finite evaluations never enter it, every estimate produced by getNextRootEstimate/iterate lies inside it, hence once a valid sign-changing bracket [xmin0,xmax0] is supplied every later evaluation of the user function is inside it.",
    note=TB_E1 + " ieee754::isfinite/isnan/fpclassify are replaced by CBMC's predicates (equality proved in C16); the float and long double instantiations are not covered (double only).")

NOT_APPLICABLE = {
    "C03": "floating-point tolerance statement about iterative eigen-solvers (Jacobi/QL/Cardano with cos/acos); no contract within reach of CBMC-C or the real-arithmetic VC generator expresses it",
    "C13": "run-time recursive-descent parser building shared_ptr expression trees with virtual dispatch; quantifier over programs; cannot be brought to the verifier without a hand-written model",
    "C14": "same code base as C13 (heap expression trees); a CAS comparison would be translation validation, a different family",
    "C19": "run-time sized matrix/LUSolve on heap storage with data-dependent pivoting; the claim is a rounding-error bound",
    "C24": "eigen decomposition plus log/exp identities; outside both engines' fragments",
    "C29": "quantifies over thread schedules of std::thread/mutex/condition_variable code; CBMC contracts are sequential and the C++ front end cannot parse it",
    "C31": "grammar-level relation between a string and a token list over std::string/vector code the verifier cannot parse",
    "C34": "finite data-table enumeration (a unit test), not a contract on code",
    "C35": "whole-program crash-freedom over arbitrary input files",
    "C36": "two-run hyper-property over the file system and container iteration order",
    "C37": "quantifies over programs; generated body is copied verbatim (circular oracle)",
    "C41": "end-to-end numerics of generated+compiled behaviours under tolerances", "C42": "end-to-end numerics of generated+compiled behaviours under tolerances",
    "C43": "end-to-end numerics of generated+compiled behaviours under tolerances", "C44": "end-to-end numerics of generated+compiled behaviours under tolerances",
    "C45": "cross-process relation between DSL input, emitted symbols and dlsym readers",
    "C47": "crash-point and file-system-history quantifiers",
    "C48": "whole-solver numerical behaviour with run-time sized algebra and dlopen'ed behaviours", "C49": "equivalence between whole-solver runs under tolerances",
    "C50": "equivalence between two runs; which fields form 'the state' is the unknown",
    "C52": "schedule-quantified (thread pool + child processes)", "C53": "finite-element convergence statement", "C54": "whole-program robustness over arbitrary inputs",
    "C55": "double-only wrapper over compiled behaviours and the log-strain handler", "C56": "container-heavy crystallography code over std::vector/variant/long double",
}
