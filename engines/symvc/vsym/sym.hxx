/*!
 * vsym::sym — a term-building scalar. The unmodified TFEL templates are instantiated at this
 * type; running them computes, per execution path, the symbolic value of every result (the
 * strongest postcondition of the code that runs) as a hash-consed DAG over the reals.
 *
 * sym is a literal type: constants are elements of Q(sqrt2, sqrt3) with exact rational
 * coefficients (128-bit), folded at compile time (`constexpr auto c = Cste<T>::sqrt2;`,
 * `constexpr auto one_third = real(1)/3;`). Overflow: compile error in constant evaluation,
 * fall-back to an unevaluated DAG node at run time.
 */
#ifndef VSYM_SYM_HXX
#define VSYM_SYM_HXX

#include <cstdint>
#include <cstdlib>
#include <functional>
#include <map>
#include <stdexcept>
#include <string>
#include <type_traits>
#include <vector>

namespace vsym {

  using i128 = __int128;

  constexpr i128 iabs(i128 a) { return a < 0 ? -a : a; }
  constexpr i128 igcd(i128 a, i128 b) {
    a = iabs(a);
    b = iabs(b);
    while (b != 0) {
      const i128 t = a % b;
      a = b;
      b = t;
    }
    return a == 0 ? 1 : a;
  }

  struct rat {
    i128 n;
    i128 d;
    // explicit constructors: with default member initialisers g++ 12 zero-fills the tail of `rat c[4] = {}` (d == 0)
    constexpr rat() : n(0), d(1) {}
    constexpr rat(i128 n_, i128 d_) : n(n_), d(d_) {}
    constexpr bool zero() const { return n == 0; }
    constexpr bool operator==(const rat& o) const { return n == o.n && d == o.d; }
  };

  constexpr bool mul_ovf(i128 a, i128 b, i128& r) { return __builtin_mul_overflow(a, b, &r); }
  constexpr bool add_ovf(i128 a, i128 b, i128& r) { return __builtin_add_overflow(a, b, &r); }

  constexpr bool rnorm(i128 n, i128 d, rat& r) {
    if (d == 0) return false;
    const i128 g = igcd(n, d);
    n /= g;
    d /= g;
    if (d < 0) {
      n = -n;
      d = -d;
    }
    r = rat{n, d};
    return true;
  }
  constexpr bool radd(const rat& a, const rat& b, rat& r) {
    i128 x = 0, y = 0, z = 0, w = 0;
    if (mul_ovf(a.n, b.d, x) || mul_ovf(b.n, a.d, y) || add_ovf(x, y, z) || mul_ovf(a.d, b.d, w)) return false;
    return rnorm(z, w, r);
  }
  constexpr rat rneg(const rat& a) { return rat{-a.n, a.d}; }
  constexpr bool rmul(const rat& a, const rat& b, rat& r) {
    // cross-reduce first to delay overflow
    const i128 g1 = igcd(a.n, b.d), g2 = igcd(b.n, a.d);
    i128 x = 0, y = 0;
    if (mul_ovf(a.n / g1, b.n / g2, x) || mul_ovf(a.d / g2, b.d / g1, y)) return false;
    return rnorm(x, y, r);
  }
  constexpr bool rinv(const rat& a, rat& r) {
    if (a.n == 0) return false;
    return rnorm(a.d, a.n, r);
  }
  constexpr rat rint(i128 k) { return rat{k, 1}; }

  //! constant of Q(sqrt2,sqrt3): c[0] + c[1] sqrt2 + c[2] sqrt3 + c[3] sqrt6
  struct cst {
    rat c[4] = {rat(), rat(), rat(), rat()};
    constexpr bool rational() const { return c[1].zero() && c[2].zero() && c[3].zero(); }
    constexpr bool zero() const { return c[0].zero() && rational(); }
    constexpr bool operator==(const cst& o) const { return c[0] == o.c[0] && c[1] == o.c[1] && c[2] == o.c[2] && c[3] == o.c[3]; }
  };
  constexpr bool cadd(const cst& a, const cst& b, cst& r) {
    for (int i = 0; i < 4; ++i)
      if (!radd(a.c[i], b.c[i], r.c[i])) return false;
    return true;
  }
  constexpr cst cneg(const cst& a) {
    cst r;
    for (int i = 0; i < 4; ++i) r.c[i] = rneg(a.c[i]);
    return r;
  }
  // basis product table: e_i * e_j = k_ij * e_(idx_ij)
  constexpr bool cmul(const cst& a, const cst& b, cst& r) {
    constexpr int idx[4][4] = {{0, 1, 2, 3}, {1, 0, 3, 2}, {2, 3, 0, 1}, {3, 2, 1, 0}};
    constexpr int k[4][4] = {{1, 1, 1, 1}, {1, 2, 1, 2}, {1, 1, 3, 3}, {1, 2, 3, 6}};
    cst acc;
    for (int i = 0; i < 4; ++i) {
      if (a.c[i].zero()) continue;
      for (int j = 0; j < 4; ++j) {
        if (b.c[j].zero()) continue;
        rat p, q, s;
        if (!rmul(a.c[i], b.c[j], p)) return false;
        if (!rmul(p, rint(k[i][j]), q)) return false;
        if (!radd(acc.c[idx[i][j]], q, s)) return false;
        acc.c[idx[i][j]] = s;
      }
    }
    r = acc;
    return true;
  }
  // inverse: supported when a single basis coefficient is non-zero (all the TFEL constants are of that form)
  constexpr bool cinv(const cst& a, cst& r) {
    int nz = 0, w = -1;
    for (int i = 0; i < 4; ++i)
      if (!a.c[i].zero()) {
        ++nz;
        w = i;
      }
    if (nz != 1) return false;
    constexpr int sq[4] = {1, 2, 3, 6};  // e_w^2
    rat inv, t;
    if (!rinv(a.c[w], inv)) return false;
    if (!rmul(inv, rat{1, sq[w]}, t)) return false;  // 1/(q e_w) = e_w/(q e_w^2)
    r = cst{};
    r.c[w] = t;
    return true;
  }
  constexpr long double capprox(const cst& a) {
    constexpr long double b[4] = {1.0L, 1.41421356237309504880168872420969808L, 1.73205080756887729352744634150587237L,
                                  2.44948974278317809819728407470589139L};
    long double s = 0;
    for (int i = 0; i < 4; ++i) s += b[i] * (static_cast<long double>(a.c[i].n) / static_cast<long double>(a.c[i].d));
    return s;
  }

  //! double -> exact rational. A decimal literal such as 0.1 is mapped to the simplest fraction
  //! p/q (q <= 10^12) that rounds to the same double, i.e. to the intended mathematical constant.
  constexpr bool from_double(long double x, rat& r) {
    if (!(x == x)) return false;
    const bool neg = x < 0;
    long double ax = neg ? -x : x;
    if (ax > 1.0e30L) return false;
    // continued fraction
    i128 p0 = 0, q0 = 1, p1 = 1, q1 = 0;
    long double y = ax;
    for (int it = 0; it < 64; ++it) {
      const i128 a = static_cast<i128>(y);
      i128 p2 = 0, q2 = 0, t = 0;
      if (mul_ovf(a, p1, t) || add_ovf(t, p0, p2)) break;
      if (mul_ovf(a, q1, t) || add_ovf(t, q0, q2)) break;
      if (q2 > static_cast<i128>(1000000000000LL)) break;
      p0 = p1; q0 = q1; p1 = p2; q1 = q2;
      const double cand = static_cast<double>(static_cast<long double>(p1) / static_cast<long double>(q1));
      if (cand == static_cast<double>(ax)) return rnorm(neg ? -p1 : p1, q1, r);
      const long double frac = y - static_cast<long double>(a);
      if (frac <= 0) break;
      y = 1.0L / frac;
    }
    // exact binary expansion
    i128 den = 1;
    long double z = ax;
    for (int it = 0; it < 120; ++it) {
      if (z == static_cast<long double>(static_cast<i128>(z))) return rnorm(neg ? -static_cast<i128>(z) : static_cast<i128>(z), den, r);
      z *= 2;
      den *= 2;
    }
    return false;
  }

  enum class op : int { var, add, sub, mul, div, neg, uf };

  struct sym;
  struct node;
  struct state;
  state& S();

  struct sym {
    cst k{};
    int id = -1;  // >= 0: DAG node, otherwise the constant k
    constexpr sym() = default;
    template <typename A>
      requires(std::is_arithmetic_v<A>)
    constexpr sym(const A v) {
      if constexpr (std::is_integral_v<A>) {
        k.c[0] = rint(static_cast<i128>(v));
      } else {
        if (!from_double(static_cast<long double>(v), k.c[0])) throw std::runtime_error("vsym: non-representable floating-point constant");
      }
    }
    constexpr bool is_const() const { return id < 0; }
    template <typename A>
      requires(std::is_arithmetic_v<A>)
    constexpr sym& operator=(const A v) {
      *this = sym(v);
      return *this;
    }
    constexpr sym& operator+=(const sym& o);
    constexpr sym& operator-=(const sym& o);
    constexpr sym& operator*=(const sym& o);
    constexpr sym& operator/=(const sym& o);
    //! numerical value of a constant (used by code converting to int, e.g. loop bounds); not for symbols
    explicit operator double() const;
  };

  constexpr sym make_cst(const cst& c) {
    sym s;
    s.k = c;
    return s;
  }
  constexpr sym sqrt2_c() {
    cst c;
    c.c[1] = rint(1);
    return make_cst(c);
  }
  constexpr sym sqrt3_c() {
    cst c;
    c.c[2] = rint(1);
    return make_cst(c);
  }

  // run-time DAG ------------------------------------------------------------------------
  sym mk(op o, const sym& a, const sym& b);
  sym mk_var(const std::string& name);
  sym mk_uf(const std::string& f, const std::vector<sym>& args);

  constexpr sym operator+(const sym& a, const sym& b) {
    if (a.is_const() && b.is_const()) {
      cst r;
      if (cadd(a.k, b.k, r)) return make_cst(r);
      if (std::is_constant_evaluated()) throw std::runtime_error("vsym: overflow in constant folding");
    }
    if (a.is_const() && a.k.zero()) return b;
    if (b.is_const() && b.k.zero()) return a;
    return mk(op::add, a, b);
  }
  constexpr sym operator-(const sym& a) {
    if (a.is_const()) return make_cst(cneg(a.k));
    return mk(op::neg, a, sym{});
  }
  constexpr sym operator+(const sym& a) { return a; }
  constexpr sym operator-(const sym& a, const sym& b) {
    if (a.is_const() && b.is_const()) {
      cst r;
      if (cadd(a.k, cneg(b.k), r)) return make_cst(r);
      if (std::is_constant_evaluated()) throw std::runtime_error("vsym: overflow in constant folding");
    }
    if (b.is_const() && b.k.zero()) return a;
    if (a.is_const() && a.k.zero()) return -b;
    return mk(op::sub, a, b);
  }
  constexpr sym operator*(const sym& a, const sym& b) {
    if (a.is_const() && b.is_const()) {
      cst r;
      if (cmul(a.k, b.k, r)) return make_cst(r);
      if (std::is_constant_evaluated()) throw std::runtime_error("vsym: overflow in constant folding");
    }
    if ((a.is_const() && a.k.zero()) || (b.is_const() && b.k.zero())) return sym{};
    if (a.is_const() && a.k == sym(1).k) return b;
    if (b.is_const() && b.k == sym(1).k) return a;
    return mk(op::mul, a, b);
  }
  constexpr sym operator/(const sym& a, const sym& b) {
    if (b.is_const()) {
      cst inv, r;
      if (cinv(b.k, inv)) {
        if (a.is_const()) {
          if (cmul(a.k, inv, r)) return make_cst(r);
        } else {
          if (b.k == sym(1).k) return a;
          return mk(op::mul, a, make_cst(inv));
        }
      }
      if (std::is_constant_evaluated()) throw std::runtime_error("vsym: unsupported constant division");
    }
    return mk(op::div, a, b);
  }
  constexpr sym& sym::operator+=(const sym& o) { return *this = *this + o; }
  constexpr sym& sym::operator-=(const sym& o) { return *this = *this - o; }
  constexpr sym& sym::operator*=(const sym& o) { return *this = *this * o; }
  constexpr sym& sym::operator/=(const sym& o) { return *this = *this / o; }
  constexpr sym& operator++(sym& a) { return a = a + sym(1); }
  constexpr sym operator++(sym& a, int) { const sym r = a; a = a + sym(1); return r; }
  constexpr sym& operator--(sym& a) { return a = a - sym(1); }

  // comparisons: decision points (see driver.hxx)
  bool decide_lt(const sym& a, const sym& b);
  bool decide_eq(const sym& a, const sym& b);
  inline bool operator<(const sym& a, const sym& b) { return decide_lt(a, b); }
  inline bool operator>(const sym& a, const sym& b) { return decide_lt(b, a); }
  inline bool operator<=(const sym& a, const sym& b) { return !decide_lt(b, a); }
  inline bool operator>=(const sym& a, const sym& b) { return !decide_lt(a, b); }
  inline bool operator==(const sym& a, const sym& b) { return decide_eq(a, b); }
  inline bool operator!=(const sym& a, const sym& b) { return !decide_eq(a, b); }

  // elementary functions
  sym sqrt(const sym& x);
  sym cbrt(const sym& x);
  sym root(const sym& x, int k);  //!< x^(1/k)
  sym abs(const sym& x);
  inline sym fabs(const sym& x) { return abs(x); }
  sym ipow(const sym& x, int n);
  sym pow(const sym& x, const sym& y);
  sym uf1(const char* f, const sym& x);
  inline sym exp(const sym& x) { return uf1("exp", x); }
  inline sym log(const sym& x) { return uf1("log", x); }
  inline sym log1p(const sym& x) { return uf1("log1p", x); }
  inline sym cos(const sym& x) { return uf1("cos", x); }
  inline sym sin(const sym& x) { return uf1("sin", x); }
  inline sym tan(const sym& x) { return uf1("tan", x); }
  inline sym acos(const sym& x) { return uf1("acos", x); }
  inline sym asin(const sym& x) { return uf1("asin", x); }
  inline sym atan(const sym& x) { return uf1("atan", x); }
  inline sym cosh(const sym& x) { return uf1("cosh", x); }
  inline sym sinh(const sym& x) { return uf1("sinh", x); }
  inline sym tanh(const sym& x) { return uf1("tanh", x); }
  //! found by ADL from tfel::math (the TFEL overloads are constrained to standard arithmetic types)
  constexpr sym& base_type_cast(sym& v) noexcept { return v; }
  constexpr const sym& base_type_cast(const sym& v) noexcept { return v; }
  inline bool isnan(const sym&) { return false; }
  inline bool isfinite(const sym&) { return true; }

}  // namespace vsym

#endif
