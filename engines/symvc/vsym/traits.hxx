/*!
 * TFEL trait specialisations for vsym::sym (mirrors include/TFEL/Math/cadna.hxx, which does the
 * same for CADNA's stochastic types) + the std:: and tfel::math:: function overloads the TFEL
 * headers call with a qualified name. Nothing here touches /repo. Include before any other TFEL
 * header.
 */
#ifndef VSYM_TRAITS_HXX
#define VSYM_TRAITS_HXX

#include <cmath>
#include <limits>
#include "vsym/sym.hxx"

namespace std {
  // constrained templates: an unqualified call under `using namespace std` then prefers the vsym:: function found by ADL (no ambiguity)
  template <typename S> requires(std::is_same_v<S, vsym::sym>) inline vsym::sym sqrt(const S& x) { return vsym::sqrt(x); }
  template <typename S> requires(std::is_same_v<S, vsym::sym>) inline vsym::sym cbrt(const S& x) { return vsym::cbrt(x); }
  template <typename S> requires(std::is_same_v<S, vsym::sym>) inline vsym::sym abs(const S& x) { return vsym::abs(x); }
  template <typename S> requires(std::is_same_v<S, vsym::sym>) inline vsym::sym fabs(const S& x) { return vsym::abs(x); }
  template <typename S> requires(std::is_same_v<S, vsym::sym>) inline vsym::sym pow(const S& x, const S& y) { return vsym::pow(x, y); }
  template <typename A> requires(std::is_arithmetic_v<A>)
  inline vsym::sym pow(const vsym::sym& x, const A y) { return vsym::pow(x, vsym::sym(y)); }
  template <typename S> requires(std::is_same_v<S, vsym::sym>) inline vsym::sym exp(const S& x) { return vsym::exp(x); }
  template <typename S> requires(std::is_same_v<S, vsym::sym>) inline vsym::sym log(const S& x) { return vsym::log(x); }
  template <typename S> requires(std::is_same_v<S, vsym::sym>) inline vsym::sym log1p(const S& x) { return vsym::log1p(x); }
  template <typename S> requires(std::is_same_v<S, vsym::sym>) inline vsym::sym cos(const S& x) { return vsym::cos(x); }
  template <typename S> requires(std::is_same_v<S, vsym::sym>) inline vsym::sym sin(const S& x) { return vsym::sin(x); }
  template <typename S> requires(std::is_same_v<S, vsym::sym>) inline vsym::sym tan(const S& x) { return vsym::tan(x); }
  template <typename S> requires(std::is_same_v<S, vsym::sym>) inline vsym::sym acos(const S& x) { return vsym::acos(x); }
  template <typename S> requires(std::is_same_v<S, vsym::sym>) inline vsym::sym asin(const S& x) { return vsym::asin(x); }
  template <typename S> requires(std::is_same_v<S, vsym::sym>) inline vsym::sym atan(const S& x) { return vsym::atan(x); }
  template <typename S> requires(std::is_same_v<S, vsym::sym>) inline vsym::sym atan2(const S& y, const S& x) { return vsym::mk_uf("atan2", {y, x}); }
  template <typename S> requires(std::is_same_v<S, vsym::sym>) inline vsym::sym cosh(const S& x) { return vsym::cosh(x); }
  template <typename S> requires(std::is_same_v<S, vsym::sym>) inline vsym::sym sinh(const S& x) { return vsym::sinh(x); }
  template <typename S> requires(std::is_same_v<S, vsym::sym>) inline vsym::sym tanh(const S& x) { return vsym::tanh(x); }
  template <typename S> requires(std::is_same_v<S, vsym::sym>) inline bool isnan(const S&) { return false; }
  template <typename S> requires(std::is_same_v<S, vsym::sym>) inline bool isfinite(const S&) { return true; }
  template <>
  struct numeric_limits<vsym::sym> {
    static constexpr bool is_specialized = true;
    static constexpr bool is_integer = false;
    static constexpr bool is_signed = true;
    //! machine epsilon of double, as an exact rational: the code under verification uses it in tolerance tests
    static constexpr vsym::sym epsilon() { return vsym::sym(1) / vsym::sym(4503599627370496LL); }
    static constexpr vsym::sym min() { return vsym::sym(1) / (vsym::sym(1LL << 62) * vsym::sym(1LL << 62)); }
    static constexpr vsym::sym max() { return vsym::sym(1LL << 62) * vsym::sym(1LL << 62); }
    static constexpr vsym::sym lowest() { return -max(); }
  };
}  // namespace std

#include "TFEL/Metaprogramming/InvalidType.hxx"
#include "TFEL/TypeTraits/IsReal.hxx"
#include "TFEL/TypeTraits/IsScalar.hxx"
#include "TFEL/TypeTraits/IsComplex.hxx"
#include "TFEL/TypeTraits/IsAssignableTo.hxx"
#include "TFEL/TypeTraits/IsFundamentalNumericType.hxx"
#include "TFEL/TypeTraits/BaseType.hxx"
#include "TFEL/Math/General/BasicOperations.hxx"
#include "TFEL/Math/General/UnaryResultType.hxx"
#include "TFEL/Math/General/ResultType.hxx"
#include "TFEL/Math/power.hxx"
#include "TFEL/Math/General/IEEE754.hxx"

namespace tfel::math::ieee754 {
  // qualified calls ieee754::isnan(x) etc. on a symbolic real: the reals have no NaN and no infinities
  inline bool isnan(const vsym::sym&) { return false; }
  inline bool isfinite(const vsym::sym&) { return true; }
  inline int fpclassify(const vsym::sym&) { return FP_NORMAL; }
}  // namespace tfel::math::ieee754

namespace tfel::math {
  // qualified calls tfel::math::power<N>(x) / power<N,D>(x): the TFEL overloads are constrained to
  // std::floating_point; these are the sym counterparts (x^N by repeated product, x^(N/D) through a root variable)
  template <int N>
  inline vsym::sym power(const vsym::sym& x) { return vsym::ipow(x, N); }
  template <int N, unsigned int D>
  inline vsym::sym power(const vsym::sym& x) requires(D != 0) {
    if constexpr (D == 1) return vsym::ipow(x, N);
    else return vsym::ipow(vsym::root(x, static_cast<int>(D)), N);
  }
  inline vsym::sym abs(const vsym::sym& x) { return vsym::abs(x); }

  template <typename Op> struct ResultType<vsym::sym, vsym::sym, Op> { using type = vsym::sym; };
  template <typename T2, typename Op> requires(std::is_arithmetic_v<T2>)
  struct ResultType<vsym::sym, T2, Op> { using type = vsym::sym; };
  template <typename T1, typename Op> requires(std::is_arithmetic_v<T1>)
  struct ResultType<T1, vsym::sym, Op> { using type = vsym::sym; };
  template <int N, unsigned int D>
  struct UnaryResultType<vsym::sym, Power<N, D>> { using type = vsym::sym; };
  // unary minus on math objects holding symbolic scalars (-s for a stensor<N, sym>)
  template <>
  struct UnaryResultType<vsym::sym, OpNeg> { using type = vsym::sym; };
  template <typename real> struct CsteBase;
  template <>
  struct CsteBase<vsym::sym> {
    static constexpr vsym::sym sqrt2 = vsym::sqrt2_c();
    static constexpr vsym::sym isqrt2 = vsym::sym(1) / vsym::sqrt2_c();
    static constexpr vsym::sym sqrt3 = vsym::sqrt3_c();
    static constexpr vsym::sym isqrt3 = vsym::sym(1) / vsym::sqrt3_c();
  };
}  // namespace tfel::math

namespace tfel::typetraits {
  template <> struct Promote<vsym::sym, vsym::sym> { using type = vsym::sym; };
  template <typename T2> requires(std::is_arithmetic_v<T2>) struct Promote<vsym::sym, T2> { using type = vsym::sym; };
  template <typename T1> requires(std::is_arithmetic_v<T1>) struct Promote<T1, vsym::sym> { using type = vsym::sym; };
  template <> struct IsScalar<vsym::sym> { static constexpr bool cond = true; };
  template <> struct IsReal<vsym::sym> { static constexpr bool cond = true; };
  template <> struct IsComplex<vsym::sym> { static constexpr bool cond = false; };
  template <> struct IsAssignableTo<vsym::sym, vsym::sym> { static constexpr bool cond = true; static constexpr bool value = true; };
  template <typename T1> requires(std::is_arithmetic_v<T1>)
  struct IsAssignableTo<T1, vsym::sym> { static constexpr bool cond = true; static constexpr bool value = true; };
  template <> struct IsFundamentalNumericType<vsym::sym> { static constexpr bool cond = true; };
  template <> struct BaseType<vsym::sym> { using type = vsym::sym; };
}  // namespace tfel::typetraits

#endif
