"""E2 runner: compile the spec TU against /repo/include (real templates at vsym::sym), let it
emit one SMT-LIB2 verification condition per (path, obligation), discharge them with the
solver portfolio, replay `sat` models on the real code instantiated at double."""
import json
import os
import re
import subprocess
import time
from concurrent.futures import ThreadPoolExecutor

from engines.common import Obligation, DISCHARGED, FAILED, UNDECIDED

HERE = os.path.dirname(os.path.abspath(__file__))
MEM_KB = 12 * 1024 * 1024
SOLVERS = [
    ("z3-5.1", "z3-new -smt2 {f}", "z3-new pp.decimal=true pp.decimal_precision=20 -smt2 {f}"),
    ("cvc5-1.0", "cvc5 --lang smt2 {f}", None),
    ("z3-4.8", "z3 -smt2 {f}", "z3 pp.decimal=true pp.decimal_precision=20 -smt2 {f}"),
]


def _run(cmd, timeout):
    import signal
    t0 = time.time()
    p = subprocess.Popen("ulimit -v %d; exec %s" % (MEM_KB, cmd), shell=True, stdout=subprocess.PIPE, stderr=subprocess.PIPE, text=True,
                         executable="/bin/bash", start_new_session=True)
    try:
        so, _ = p.communicate(timeout=timeout)
        return so, time.time() - t0
    except subprocess.TimeoutExpired:
        try:
            os.killpg(p.pid, signal.SIGKILL)
        except OSError:
            pass
        try:
            p.communicate(timeout=5)
        except Exception:
            pass
        return "timeout", time.time() - t0


def compile_spec(ctx, src="e2.cxx", exe="e2", flags=""):
    """Compile specs/<ID>/<src> against /repo's working tree. Returns (exe path, error)."""
    srcp = os.path.join(ctx.spec_dir, src)
    out = os.path.join(ctx.out, exe)
    cmd = ("g++ -std=c++20 -O1 -fno-var-tracking -w -I%s -I%s -I%s/include %s %s %s/src/Exception/ContractViolation.cxx -o %s"
           % (HERE, os.path.join(ctx.verif, "specs"), ctx.repo, flags, srcp, ctx.repo, out))
    t0 = time.time()
    p = subprocess.run(cmd, shell=True, capture_output=True, text=True, timeout=3600)
    ctx.notes.append("compiled %s against %s/include in %.1fs" % (src, ctx.repo, time.time() - t0))
    if p.returncode != 0:
        errs = [l for l in p.stderr.splitlines() if "error" in l][:5]
        return None, "spec TU does not compile against the current tree: " + " | ".join(errs)[:1200]
    if len(ctx.checker_cmds) < 6:
        ctx.checker_cmds.append(cmd.replace(ctx.verif + "/", ""))
    return out, None


ALGEBRA = os.path.join(HERE, "algebra.py")


def solve(f, timeout, want_model=False, hints=None):
    """portfolio; returns (status, backend, time, model_text). The exact algebraic back end goes first: it discharges goals that
    are polynomial / rational identities modulo the root relations in a fraction of a second, and never refutes."""
    total = 0.0
    last = "unknown"
    # 1. a short SMT attempt: most obligations are decided in a few milliseconds
    name0, cmd0, mcmd0 = SOLVERS[0]
    out, t = _run(cmd0.format(f=f), min(3, timeout))
    total += t
    first = out.strip().split("\n", 1)[0].strip() if out.strip() else ""
    if first == "unsat":
        return "unsat", name0, total, ""
    if first == "sat":
        out2, _ = _run(mcmd0.format(f=f), min(10, timeout))
        return "sat", name0, total, out2 if out2.strip().startswith("sat") else out
    # 2. exact algebra for (conjunctions of) equalities
    out, t = _run("python3-vt %s %s" % (ALGEBRA, f), min(timeout, 120))
    total += t
    if out.strip().split("\n", 1)[0].strip() == "unsat":
        return "unsat", "algebra(sympy-1.14 exact polynomial arithmetic)", total, ""
    # 3. refutation with the inputs fixed to a generic model of the preconditions
    if hints and "does not reduce to zero" in out:
        st, t, model = guided_refutation(f, hints)
        total += t
        if st == "sat":
            return "sat", "z3-5.1 (inputs fixed to a model of pre /\\ path)", total, model
    # 4. the full portfolio
    for name, cmd, mcmd in SOLVERS:
        out, t = _run(cmd.format(f=f), timeout)
        total += t
        first = out.strip().split("\n", 1)[0].strip() if out.strip() else ""
        if first == "unsat":
            return "unsat", name, total, ""
        if first == "sat":
            model = out
            if mcmd:
                out2, _ = _run(mcmd.format(f=f), timeout)
                if out2.strip().startswith("sat"):
                    model = out2
            return "sat", name, total, model
        last = first or "no answer"
    return "unknown(%s)" % last[:40], "portfolio", total, ""


def input_hints(model_txt, varmap):
    """From a model of `pre /\\ path` (the reachability query): `(assert (= nK <exact rational>))` for the input variables.
    Fixing the inputs turns the refutation of a false identity into a plain evaluation for the solver; a `sat` answer to the
    constrained query is a `sat` answer to the original one (sound for refutation, says nothing when it is unsat)."""
    hints = []
    for m in re.finditer(r"\(define-fun\s+(n\d+)\s+\(\)\s+Real\s+(.*?)\)\s*(?=\(define-fun|\)\s*$)", model_txt, re.S):
        name, body = m.group(1), " ".join(m.group(2).split())
        if "root-obj" in body or "?" in body or (varmap is not None and name not in varmap):
            continue
        hints.append("(assert (= %s %s))" % (name, body))
    return hints


def guided_refutation(f, hints, timeout=30):
    if not hints:
        return None, 0.0, ""
    txt = open(f).read()
    g = f[:-5] + ".guided.smt2"
    open(g, "w").write(txt.replace("(check-sat)", "\n".join(hints) + "\n(check-sat)", 1))
    out, t = _run("z3-new -smt2 %s" % g, timeout)
    if out.strip().startswith("sat"):
        out2, _ = _run("z3-new pp.decimal=true pp.decimal_precision=20 -smt2 %s" % g, timeout)
        return "sat", t, out2 if out2.strip().startswith("sat") else out
    return None, t, ""


def parse_model(txt):
    """{n<k>: float} from a z3/cvc5 model (decimal printing, '?' suffix for truncated algebraic numbers)."""
    vals = {}
    for m in re.finditer(r"\(define-fun\s+(\S+)\s+\(\)\s+Real\s+(.*?)\)\s*(?=\(define-fun|\)\s*$|$)", txt, re.S):
        name, body = m.group(1), m.group(2).strip()
        try:
            vals[name] = _eval(body)
        except Exception:
            pass
    return vals


def _eval(s):
    s = s.replace("?", "").strip()
    toks = re.findall(r"\(|\)|[^\s()]+", s)
    pos = [0]

    def ex():
        t = toks[pos[0]]
        pos[0] += 1
        if t == "(":
            op = toks[pos[0]]
            pos[0] += 1
            args = []
            while toks[pos[0]] != ")":
                args.append(ex())
            pos[0] += 1
            if op == "-":
                return -args[0] if len(args) == 1 else args[0] - sum(args[1:])
            if op == "+":
                return sum(args)
            if op == "*":
                r = 1.0
                for a in args:
                    r *= a
                return r
            if op == "/":
                return args[0] / args[1]
            raise ValueError(op)
        return float(t)
    return ex()


def run_spec(ctx, src="e2.cxx", exe="e2", prefix_filter="", flags="", per_timeout=None, expect_min=1, reach_timeout=60):
    ctx.trust("g++ 12.2 front end and template instantiation (the verified text is the unmodified /repo header code, instantiated at vsym::sym)",
              "vsym (engines/symvc/vsym: term-building scalar, path scheduler, SMT-LIB emitter) and the TFEL trait specialisations for it",
              "SMT solvers z3 5.1 / cvc5 1.0.3 / z3 4.8.12 (an `unsat` answer from any one discharges the obligation)",
              "algebraic back end engines/symvc/algebra.py (sympy 1.14 exact polynomial arithmetic over Q): equalities are discharged when the numerator of lhs - rhs reduces to zero modulo the root relations and equality hypotheses (ideal membership), plus uniqueness of real k-th roots; it never refutes")
    ctx.assume("machine arithmetic treated as mathematical: obligations are proved over the reals (no rounding, overflow or NaN)",
               "floating-point literals are read as the simplest rational that rounds to them (0.1 -> 1/10)")
    binp, err = compile_spec(ctx, src, exe, flags)
    if binp is None:
        ctx.undecided(ctx.pid + "/compile", err)
        return
    vcdir = os.path.join(ctx.out, "vc_" + exe)
    subprocess.run("rm -rf %s && mkdir -p %s" % (vcdir, vcdir), shell=True)
    t0 = time.time()
    # one process per contract (path exploration and on-the-fly feasibility pruning are sequential inside a contract)
    lst = subprocess.run([binp, "--list"], capture_output=True, text=True, timeout=600)
    names = [n for n in lst.stdout.split("\n") if n and n.startswith(prefix_filter)]
    dev_only = os.environ.get("VERIF_ONLY")  # development aid: restrict to the contracts whose name contains this text (never set by MANIFEST commands)
    if dev_only:
        names = [n for n in names if dev_only in n]
        expect_min = 0
        if not names:
            return
    if lst.returncode != 0 or not names:
        ctx.undecided(ctx.pid + "/emit", "VC generation failed: no contract listed: " + (lst.stderr or lst.stdout)[-300:])
        return

    def emit_one(k):
        try:
            for attempt in (0, 1):
                q = subprocess.run([binp, "--emit", vcdir, names[k], "exact", "index.%d.json" % k], capture_output=True, text=True, timeout=3600 if ctx.thorough else 900)
                if q.returncode >= 0:
                    break
            msg = (q.stderr or q.stdout)[-500:]
            if q.returncode < 0:
                # a feasibility query that timed out lets an infeasible branch be explored, where the real code may leave its domain
                msg = "VC generator killed by signal %d while exploring %s (twice) %s" % (-q.returncode, names[k], msg)
            return (q.returncode, msg)
        except subprocess.TimeoutExpired:
            return (124, "timeout while exploring " + names[k])
    with ThreadPoolExecutor(max_workers=min(int(os.environ.get("VERIF_JOBS", "16")), len(names))) as ex:
        rcs = list(ex.map(emit_one, range(len(names))))
    bad = [(names[k], r) for k, r in enumerate(rcs) if r[0] != 0]
    for (nm, r) in bad:
        # that contract is undecided; the others are still discharged (a violation found elsewhere is still a violation)
        ctx.undecided("%s/%s/emit" % (ctx.pid, nm.replace(" ", "_")), "VC generation failed for %s: %s" % (nm, r[1]))
    if len(bad) == len(names):
        return
    ctx.notes.append("VC generation (symbolic execution of the real code, one process per contract) took %.1fs" % (time.time() - t0))
    idx = []
    for k in range(len(names)):
        if rcs[k][0] != 0:
            continue
        idx += json.load(open(os.path.join(vcdir, "index.%d.json" % k)))
    tmo = per_timeout or (300 if ctx.thorough else 30)
    paths = {}
    for e in idx:
        paths.setdefault((e["contract"], e["path"]), []).append(e)
    npaths_of = {}
    for (c, pth) in paths:
        npaths_of[c] = npaths_of.get(c, 0) + 1

    def do_path(key):
        c, pth = key
        res = []
        ents = paths[key]
        reach = [e for e in ents if e["kind"] == "reach"]
        feasible = None
        for e in ents:
            if e["kind"] == "error":
                res.append(("ob", Obligation("%s/%s/%s/*" % (ctx.pid, c, pth), UNDECIDED, "vsym", 0, e.get("error", "error"))))
        hints = None
        if reach:
            feasible, t = None, 0.0
            for _name, cmd, _m in SOLVERS[:2]:  # vacuity / feasibility query: any solver may answer
                out, t1 = _run(cmd.format(f=reach[0]["file"]), reach_timeout)
                t += t1
                first = out.strip().split("\n", 1)[0] if out.strip() else ""
                if first in ("sat", "unsat"):
                    feasible = first == "sat"
                    if feasible and _name.startswith("z3"):
                        vm = None
                        for e2 in ents:
                            if e2.get("vars"):
                                vm = e2["vars"]
                                break
                        hints = input_hints(out, vm)
                        if vm:
                            # a generic point is more telling than the solver's favourite zeros: same query with pairwise distinct, non-zero inputs
                            gf = reach[0]["file"][:-5] + ".generic.smt2"
                            names = sorted(vm, key=lambda x: int(x[1:]))
                            extra = "(assert (distinct %s 0 1 (- 1) 2 (/ 1 2)))\n" % " ".join(names) if len(names) >= 1 else ""
                            open(gf, "w").write(open(reach[0]["file"]).read().replace("(check-sat)", extra + "(check-sat)", 1))
                            out2, _t2 = _run("z3-new -smt2 %s" % gf, 15)
                            if out2.strip().startswith("sat"):
                                h2 = input_hints(out2, vm)
                                if len(h2) >= len(hints):
                                    hints = h2
                    break
            res.append(("reach", (c, pth, feasible, t)))
        for e in ents:
            if e["kind"] != "valid":
                continue
            nm = ("%s/%s/%s%s" % (ctx.pid, c, (pth + "/") if npaths_of[c] > 1 else "", e["obligation"])).replace(" ", "_")
            if feasible is False:
                res.append(("vacuous", nm))
                continue
            res.append(("todo", (c, pth, e, nm, hints)))
        return res

    def do_ob(item):
        c, pth, e, nm, hints = item
        res = []
        if True:
            st, be, t, model = solve(e["file"], tmo, hints=hints)
            vc = os.path.relpath(e["file"], ctx.verif)
            if st == "unsat":
                res.append(("ob", Obligation(nm, DISCHARGED, be, t, "", vc=vc)))
            elif st == "sat":
                ob = Obligation(nm, FAILED, be, t, "solver found a model of pre /\\ path /\\ not post", vc=vc)
                vals = parse_model(model)
                named = {e.get("vars", {}).get(k, k): v for k, v in vals.items() if k in e.get("vars", {})}
                ob.inputs = named
                rp = os.path.join(ctx.out, re.sub(r"[^\w.\-]", "_", nm) + ".replay.json")
                args = [binp, "--replay", c] + ["%s=%r" % (k, v) for k, v in named.items()]
                try:
                    pr = subprocess.run(args, capture_output=True, text=True, timeout=120)
                    rout = pr.stdout
                except Exception as ex:  # noqa
                    rout = "replay failed: %s" % ex
                rep = ("ensure %s : VIOLATED" % e["obligation"]) in rout and "precondition holds" in rout
                ob.reproduced = rep
                ob.detail += " | replay on the real code at double: " + (rout.strip().replace("\n", " ; ")[-400:])
                json.dump({"property": ctx.pid, "obligation": nm, "engine": "E2 symvc", "contract": c, "path": pth,
                           "vc_file": e["file"], "inputs": named, "replay_cmd": " ".join(args),
                           "verifier_output": model[:4000], "replay_output": rout, "reproduced_on_real_code": rep}, open(rp, "w"), indent=1)
                ob.replay = rp
                res.append(("ob", ob))
            else:
                res.append(("ob", Obligation(nm, UNDECIDED, be, t, "no solver decided within %ds: %s" % (tmo, st), vc=vc)))
        return res

    # phase 1: reachability of every path (vacuity, pruning, hints); phase 2: every obligation is its own job
    with ThreadPoolExecutor(max_workers=int(os.environ.get("VERIF_JOBS", "16"))) as ex:
        allres = list(ex.map(do_path, sorted(paths)))
        todo = [x for res in allres for kind, x in res if kind == "todo"]
        allres = [[(k, x) for k, x in res if k != "todo"] for res in allres] + list(ex.map(do_ob, todo))
    reach_ok = {}
    nvac = 0
    for res in allres:
        for kind, x in res:
            if kind == "ob":
                ctx.add(x)
            elif kind == "reach":
                c, pth, feas, t = x
                reach_ok[c] = reach_ok.get(c, False) or (feas is True)
            elif kind == "vacuous":
                nvac += 1
    for c in sorted(npaths_of):
        ctx.vacuity.append(("%s/%s/reachable-path" % (ctx.pid, c), reach_ok.get(c, False)))
        ctx.functions.append({"name": c, "paths": npaths_of[c], "contract": "specs/%s/%s" % (ctx.pid, src), "engine": "E2"})
    ctx.notes.append("%d contracts, %d paths, %d obligations skipped on infeasible paths (pre /\\ path unsat)" % (len(npaths_of), len(paths), nvac))
    if len([o for o in ctx.obligations]) < expect_min:
        ctx.undecided(ctx.pid + "/count", "fewer obligations than the spec records (%d)" % expect_min)
