#!/usr/bin/env python3-vt
"""E2 algebraic back end: decides verification conditions whose goal is a (conjunction of) polynomial / rational equalities by
exact computer algebra instead of SMT search.

Input: one of the SMT-LIB2 files written by vsym (engines/symvc/vsym/driver.hxx:emit_query). Every node is parsed into an exact
rational function num/den over Q[variables]; the relations available are the side conditions of the root variables (y^k = x),
r2^2 = 2, r3^2 = 3 and every hypothesis that is itself an equality. For a goal L = R the numerator of L - R is divided by the
relations (multivariate division, lex order, root variables first); remainder 0 means L - R lies in the ideal of the relations,
hence L = R wherever the denominators do not vanish -- and `denominator != 0` is a separate obligation of the same contract
(div-by-nonzero:*), discharged by SMT from the preconditions. A non-zero remainder decides nothing (answer `unknown`, the SMT
portfolio then runs): this back end can only discharge, never refute.

usage: algebra.py file.smt2   -> prints `unsat` (goal proved) or `unknown: <reason>`
"""
import re
import sys

from sympy import QQ
from sympy.polys.rings import ring


def tokenize(s):
    return re.findall(r"\(|\)|[^\s()]+", s)


def parse(tokens, pos=0):
    t = tokens[pos]
    if t == "(":
        lst = []
        pos += 1
        while tokens[pos] != ")":
            e, pos = parse(tokens, pos)
            lst.append(e)
        return lst, pos + 1
    return t, pos + 1


class Alg:
    def __init__(self, text):
        self.decl = []      # variable names in declaration order
        self.defs = {}      # name -> s-expression
        self.side = []      # side-condition equalities (lhs, rhs)
        self.hyp_eq = []    # hypotheses that are equalities
        self.goal = None
        self.ufs = {}
        for line in text.splitlines():
            line = line.strip()
            if not line.startswith("("):
                continue
            comment = ""
            if ";" in line:
                line, comment = line.split(";", 1)
                line, comment = line.strip(), comment.strip()
            e, _ = parse(tokenize(line))
            if e[0] == "declare-const":
                self.decl.append(e[1])
            elif e[0] == "define-fun":
                self.defs[e[1]] = e[4]
            elif e[0] == "assert":
                body = e[1]
                if comment.startswith("negated postcondition"):
                    self.goal = body[1]  # (not G)
                elif isinstance(body, list) and body[0] == "=":
                    (self.side if comment.startswith("side condition") else self.hyp_eq).append((body[1], body[2]))
        # opaque applications of uninterpreted functions become variables
        self.opaque = {}
        for n, d in self.defs.items():
            if isinstance(d, list) and d[0] not in ("+", "-", "*", "/"):
                self.opaque[n] = d
        gens = [n for n in self.opaque] + list(reversed(self.decl))  # later variables (roots of earlier terms) first
        if not gens:
            gens = ["dummy"]
        self.R, *self.g = ring(",".join(gens), QQ, order="lex")
        self.gen = dict(zip(gens, self.g))
        self.cache = {}
        self.red = []

    # A fraction is (numerator polynomial, {denominator atom: exponent}); atoms are the polynomials the code divided by. Keeping the
    # denominator factored avoids polynomial gcds altogether: sums use the least common multiple of the factored denominators.
    def one(self):
        return (self.R(1), {})

    def expand(self, den):
        p = self.R(1)
        for a, k in den.items():
            p = p * a ** k
        return p

    def reduce(self, n):
        """keep numerators small: degree in each root variable below its index (relations y^k - x, leading term y^k)"""
        return n.rem(self.red) if self.red and n != 0 else n

    def lcm(self, d1, d2):
        L = dict(d1)
        for a, k in d2.items():
            if L.get(a, 0) < k:
                L[a] = k
        return L

    def lift(self, n, d, L):
        """n/d written over the common denominator L (d divides L factor-wise)"""
        for a, k in L.items():
            m = k - d.get(a, 0)
            if m:
                n = n * a ** m
        return n

    def term(self, e):
        """s-expression -> (num, factored den) in the polynomial ring."""
        if isinstance(e, str):
            if e in self.cache:
                return self.cache[e]
            if e in self.gen:
                r = (self.gen[e], {})
            elif e in self.defs:
                r = self.term(self.defs[e])
            else:
                r = (self.R(QQ(int(e))), {}) if re.fullmatch(r"-?\d+", e) else self.num_literal(e)
            self.cache[e] = r
            return r
        op, args = e[0], [self.term(a) for a in e[1:]]
        if op in ("+", "-"):
            if op == "-" and len(args) == 1:
                return (-args[0][0], args[0][1])
            n, d = args[0]
            for (n2, d2) in args[1:]:
                L = self.lcm(d, d2)
                a, b = self.lift(n, d, L), self.lift(n2, d2, L)
                n, d = self.reduce(a + b if op == "+" else a - b), L
                if n == 0:
                    d = {}
            return (n, d)
        if op == "*":
            n, d = args[0]
            for (n2, d2) in args[1:]:
                n = self.reduce(n * n2)
                d = {a: d.get(a, 0) + d2.get(a, 0) for a in set(d) | set(d2)}
                if n == 0:
                    d = {}
            return (n, d)
        if op == "/":
            (n, d), (n2, d2) = args
            num = self.reduce(n * self.expand(d2))
            den = dict(d)
            if n2.is_ground:
                num = num * (1 / n2.coeff(1))
            else:
                # normalise the atom: monic leading coefficient, so that the same divisor is recognised whatever its scaling
                lc = n2.LC
                num = num * (1 / lc)
                atom = n2 * (1 / lc)
                den[atom] = den.get(atom, 0) + 1
            return (num, den)
        raise ValueError("operator %r" % op)

    def diff_num(self, a, b):
        """numerator of a - b over the common denominator"""
        (n1, d1), (n2, d2) = a, b
        L = self.lcm(d1, d2)
        return self.lift(n1, d1, L) - self.lift(n2, d2, L)

    def num_literal(self, e):
        m = re.fullmatch(r"(-?\d+)\.(\d+)", e)
        if not m:
            raise ValueError("literal %r" % e)
        return (self.R(QQ(int(m.group(1) + m.group(2)), 10 ** len(m.group(2)))), {})

    def root_relations(self):
        """side conditions y^k = x processed in declaration order; returns [(y, k, x-term, relation polynomial)]. The relation
        polynomials y^k * den(x) - num(x) are used to reduce numerators from then on."""
        roots = []
        self.red = []
        if "r2" in self.gen:
            self.red.append(self.gen["r2"] ** 2 - 2)
        if "r3" in self.gen:
            self.red.append(self.gen["r3"] ** 2 - 3)
        for (a, b) in self.side:
            (n1, d1) = self.term(a)
            if d1 or len(n1.terms()) != 1:
                continue
            (mon, coeff), = n1.terms()
            nz = [(i, ex) for i, ex in enumerate(mon) if ex]
            if coeff != 1 or len(nz) != 1 or nz[0][1] < 2:
                continue
            xn, xd = self.term(b)
            y, k = self.g[nz[0][0]], nz[0][1]
            rel = n1 * self.expand(xd) - xn
            roots.append((y, k, (xn, xd), rel))
            if not xd:
                self.red.append(rel)  # leading term y^k: safe for reduction
        return roots

    def relations(self):
        roots = self.root_relations()
        rel = list(self.red)
        for (y, k, x, r) in roots:
            if r not in rel:
                rel.append(r)
        for (a, b) in self.side + self.hyp_eq:
            p = self.diff_num(self.term(a), self.term(b))
            if p != 0 and p not in rel:
                rel.append(p)
        # y1^k = x1, y2^k = x2 (with y >= 0 for even k: side conditions) and x1 = x2 modulo the relations  =>  y1 = y2
        for i in range(len(roots)):
            for j in range(i + 1, len(roots)):
                (y1, k1, x1, _r1), (y2, k2, x2, _r2) = roots[i], roots[j]
                if k1 != k2:
                    continue
                p = self.diff_num(x1, x2)
                if p == 0 or p.rem(rel) == 0:
                    rel.append(y1 - y2)
        return rel

    def goal_equalities(self):
        g = self.goal
        if g is None:
            return None
        if g[0] == "=":
            return [(g[1], g[2])]
        if g[0] == "and" and all(isinstance(x, list) and x[0] == "=" for x in g[1:] if x != "true"):
            return [(x[1], x[2]) for x in g[1:] if x != "true"]
        return None


def decide(path):
    text = open(path).read()
    # r2 / r3 are declared by the preamble
    a = Alg(text)
    eqs = a.goal_equalities()
    if not eqs:
        return "unknown: goal is not a conjunction of equalities"
    rel = a.relations()
    for (l, r) in eqs:
        p = a.diff_num(a.term(l), a.term(r))
        if p == 0:
            continue
        rem = p.rem(rel) if rel else p
        if rem != 0:
            return "unknown: numerator of lhs - rhs does not reduce to zero (%d terms left)" % len(rem.terms())
    return "unsat"


if __name__ == "__main__":
    try:
        print(decide(sys.argv[1]))
    except Exception as e:  # noqa
        print("unknown: %s: %s" % (type(e).__name__, e))
