"""Native replay of verifier counterexamples on the real code (g++ against /repo/include)."""
import os
import re
import subprocess


def native(ctx, src, args, extra_flags="", libs="", extra_src=("src/Exception/ContractViolation.cxx",)):
    """Compile replay/<src> (once per run) and run it with args. Returns (True|False|None, output)."""
    exe = os.path.join(ctx.out, os.path.splitext(os.path.basename(src))[0] + ".replay.exe")
    srcp = os.path.join(ctx.verif, "replay", src)
    if True:  # always rebuild: the harness depends on the headers and sources of /repo's working tree
        cmd = "g++ -std=c++20 -O0 -I%s/include -I%s/engines/symvc %s %s %s -o %s %s" % (ctx.repo, ctx.verif, extra_flags, srcp, " ".join(os.path.join(ctx.repo, e) for e in extra_src), exe, libs)
        p = subprocess.run(cmd, shell=True, capture_output=True, text=True, timeout=600)
        if p.returncode != 0:
            return None, "replay harness does not compile: " + p.stderr[-500:]
    p = subprocess.run([exe] + [str(a) for a in args], capture_output=True, text=True, timeout=120)
    out = p.stdout + p.stderr
    if "NOT-REPRODUCED" in out:
        return False, out
    if "REPRODUCED" in out:
        return True, out
    return None, out


def dyn_values(inputs):
    """is_fresh object contents in allocation order: list of lists of 'binary' strings."""
    objs = {}
    for k, v in inputs.items():
        m = re.match(r"dynamic_object\$(\d+)(?:\.\w+)?(?:\[(\d+)l?\])?", k)
        if m and v.get("binary"):
            objs.setdefault(int(m.group(1)), []).append((int(m.group(2) or 0), v["binary"]))
    return [[b for _, b in sorted(objs[k])] for k in sorted(objs)]


def bits_hex(b):
    return "%x" % int(b, 2)
