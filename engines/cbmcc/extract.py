"""E1 extraction: locate a function body in /repo's working tree and transliterate
it to C with a fixed, logged list of token-level rewrite rules.

Nothing here understands C++: a locator is (file, regex for the signature, ordinal);
the body is the brace-balanced text that follows; rules are regex substitutions.
Every rule reports how many times it fired; a must-fire rule that fires fewer times
than required raises ExtractionDrift (exit 2 at the top level, never a VIOLATION).
"""
import hashlib
import os
import re


class ExtractionDrift(Exception):
    pass


def _skip_ws_and_comments(s, i):
    n = len(s)
    while i < n:
        if s[i].isspace():
            i += 1
        elif s.startswith("//", i):
            j = s.find("\n", i)
            i = n if j < 0 else j + 1
        elif s.startswith("/*", i):
            j = s.find("*/", i)
            i = n if j < 0 else j + 2
        else:
            break
    return i


def balanced(s, i, open_c="{", close_c="}"):
    """s[i] == open_c; return index just past the matching close_c, skipping
    strings, char literals and comments."""
    assert s[i] == open_c, (s[i:i + 20], open_c)
    depth = 0
    n = len(s)
    while i < n:
        c = s[i]
        if s.startswith("//", i):
            j = s.find("\n", i)
            i = n if j < 0 else j + 1
            continue
        if s.startswith("/*", i):
            j = s.find("*/", i)
            i = n if j < 0 else j + 2
            continue
        if c == '"':
            # raw strings are not used in the extracted functions
            i += 1
            while i < n and s[i] != '"':
                i += 2 if s[i] == "\\" else 1
            i += 1
            continue
        if c == "'":
            # digit separators (1'000) do not occur in the anchored code; treat as char literal
            j = i + 1
            while j < n and s[j] != "'":
                j += 2 if s[j] == "\\" else 1
            if j - i <= 4:
                i = j + 1
                continue
            i += 1
            continue
        if c == open_c:
            depth += 1
        elif c == close_c:
            depth -= 1
            if depth == 0:
                return i + 1
        i += 1
    raise ExtractionDrift("unbalanced %s at offset %d" % (open_c, i))


def strip_comments(s):
    out = []
    i = 0
    n = len(s)
    while i < n:
        if s.startswith("//", i):
            j = s.find("\n", i)
            i = n if j < 0 else j
            continue
        if s.startswith("/*", i):
            j = s.find("*/", i)
            seg = s[i:(n if j < 0 else j + 2)]
            out.append("\n" * seg.count("\n"))
            i = n if j < 0 else j + 2
            continue
        if s[i] == '"':
            j = i + 1
            while j < n and s[j] != '"':
                j += 2 if s[j] == "\\" else 1
            out.append(s[i:j + 1])
            i = j + 1
            continue
        out.append(s[i])
        i += 1
    return "".join(out)


class Extracted:
    def __init__(self, name, file, line, raw, text, fired):
        self.name = name
        self.file = file
        self.line = line
        self.raw = raw
        self.text = text
        self.fired = fired  # list of (rule-name, count)
        self.sha256 = hashlib.sha256(raw.encode()).hexdigest()

    def describe(self):
        return {"name": self.name, "file": self.file, "line": self.line,
                "sha256_of_extracted_source": self.sha256,
                "rules_fired": {k: v for k, v in self.fired}}


def locate(repo, file, pattern, ordinal=0, what="body"):
    """Return (raw_text, line). what = 'body' -> the {...} that follows the match;
    'match' -> the regex match itself (group 0); 'init' -> the {...} initializer."""
    path = os.path.join(repo, file)
    try:
        src = open(path, encoding="utf-8", errors="replace").read()
    except OSError as e:
        raise ExtractionDrift("cannot read %s: %s" % (file, e))
    ms = list(re.finditer(pattern, src, re.S))
    if len(ms) <= ordinal:
        raise ExtractionDrift("locator %r (ordinal %d) not found in %s (%d matches)" % (pattern, ordinal, file, len(ms)))
    m = ms[ordinal]
    line = src.count("\n", 0, m.start()) + 1
    if what == "match":
        return m.group(0), line
    i = m.end()
    # skip to the first '{' that is not inside parentheses
    depth = 0
    n = len(src)
    while i < n:
        i = _skip_ws_and_comments(src, i)
        c = src[i]
        if c == "(":
            i = balanced(src, i, "(", ")")
            continue
        if c == "{" and depth == 0:
            break
        if c == ";":
            raise ExtractionDrift("locator %r in %s hits a declaration, not a definition" % (pattern, file))
        i += 1
    j = balanced(src, i)
    return src[i:j], line


def apply_rules(text, rules):
    """rules: list of dicts {name, re, sub, min (default 0), flags}. Applied in order."""
    fired = []
    for r in rules:
        if "drop_block" in r:
            # delete `<header matching the regex> { balanced block }` (statements that only set up or print)
            k = 0
            while True:
                m = re.search(r["drop_block"], text, re.S)
                if not m:
                    break
                i = text.index("{", m.end() - 1) if text[m.end() - 1] != "{" else m.end() - 1
                j = balanced(text, i)
                text = text[:m.start()] + r.get("sub", "") + text[j:]
                k += 1
            fired.append((r["name"], k))
            if k < r.get("min", 0):
                raise ExtractionDrift("must-fire rule %r fired %d < %d times" % (r["name"], k, r["min"]))
            continue
        if "block_body" in r:
            # keep the header matched by the regex (it ends with the opening brace) and replace the CONTENT of its balanced block:
            # used to abstract a long computation by a ghost effect while the guarding condition stays the extracted text
            k = 0
            pos = 0
            while True:
                m = re.compile(r["block_body"], re.S).search(text, pos)
                if not m:
                    break
                i = m.end() - 1
                if text[i] != "{":
                    raise ExtractionDrift("rule %r: header does not end with '{'" % r["name"])
                j = balanced(text, i)
                text = text[:i + 1] + " " + r["body"] + " " + text[j - 1:]
                pos = i + 1 + len(r["body"]) + 2
                k += 1
                if k >= r.get("max", 1):
                    break
            fired.append((r["name"], k))
            if k < r.get("min", 0):
                raise ExtractionDrift("must-fire rule %r fired %d < %d times" % (r["name"], k, r["min"]))
            continue
        if "wrap_calls" in r:
            # wrap every call `<callee matching the regex>(balanced args)` as fmt % call  (exception model: CALLX)
            out, pos, k = [], 0, 0
            for m in re.finditer(r["wrap_calls"], text):
                if m.start() < pos:
                    continue
                i = m.end() - 1
                if text[i] != "(":
                    continue
                j = balanced(text, i, "(", ")")
                out.append(text[pos:m.start()])
                out.append(r["fmt"] % (r.get("rename", lambda x: x)(text[m.start():i]) + text[i:j]))
                pos = j
                k += 1
            out.append(text[pos:])
            text = "".join(out)
            fired.append((r["name"], k))
            if k < r.get("min", 0):
                raise ExtractionDrift("must-fire rule %r fired %d < %d times" % (r["name"], k, r["min"]))
            continue
        if "after_block" in r:
            # insert text right after the balanced {...} block that follows the regex
            m = re.search(r["after_block"], text, re.S)
            if not m:
                if r.get("min", 0):
                    raise ExtractionDrift("must-fire rule %r did not match" % r["name"])
                fired.append((r["name"], 0))
                continue
            i = text.index("{", m.end() - 1)
            j = balanced(text, i)
            text = text[:j] + r["insert"] + text[j:]
            fired.append((r["name"], 1))
            continue
        if "do_while" in r:
            # `do { BODY } while (COND);` -> `{ _Bool dw_first = 1; while (dw_first || (COND)) <contract> { dw_first = 0; BODY } }`
            # (same semantics, `continue` included: it re-evaluates COND in both forms). CBMC 6.11 has no contract syntax for do-while.
            k = 0
            m = re.search(r"\bdo\s*\{", text)
            if m:
                i = m.end() - 1
                j = balanced(text, i)
                t = re.match(r"\s*while\s*\((" + r["do_while"] + r")\)\s*;", text[j:], re.S)
                if t:
                    text = (text[:m.start()] + "{ _Bool dw_first = 1; while (dw_first || (" + t.group(1) + "))\n" + r["contract"] +
                            "\n  { dw_first = 0; " + text[i + 1:j - 1] + " } }" + text[j + t.end():])
                    k = 1
            fired.append((r["name"], k))
            if k < r.get("min", 0):
                raise ExtractionDrift("must-fire rule %r fired %d < %d times" % (r["name"], k, r["min"]))
            continue
        if "require" in r:
            # the text produced by the earlier (alternative) rules must contain the pattern: one of the alternatives has fired
            if not re.search(r["require"], text, re.S):
                raise ExtractionDrift("rule %r: none of the alternative rules fired" % r["name"])
            fired.append((r["name"], 1))
            continue
        if "forbid" in r:
            # nothing matching the pattern may survive the earlier rules (an unmapped construct): drift, not a guess
            hay = re.sub(r'"(?:\\.|[^"\\])*"', '""', text) if r.get("outside_strings") else text  # emitted text may legitimately contain C++
            if re.search(r["forbid"], hay, re.S):
                raise ExtractionDrift("rule %r: unmapped text %r remains" % (r["name"], re.search(r["forbid"], hay, re.S).group(0)[:60]))
            fired.append((r["name"], 0))
            continue
        flags = r.get("flags", re.S)
        text, k = re.subn(r["re"], r["sub"], text, flags=flags)
        fired.append((r["name"], k))
        if k < r.get("min", 0):
            raise ExtractionDrift("must-fire rule %r fired %d < %d times" % (r["name"], k, r["min"]))
        if "max" in r and k > r["max"]:
            raise ExtractionDrift("rule %r fired %d > %d times" % (r["name"], k, r["max"]))
    return text, fired


# ---- generic rule list (DESIGN 2.1), frozen order -------------------------------------
GENERIC_RULES = [
    {"name": "drop-attributes", "re": r"\[\[(?:nodiscard|maybe_unused|noreturn)\]\]\s*", "sub": ""},
    {"name": "drop-TFEL-macros", "re": r"\bTFEL_(?:HOST_DEVICE|HOST|DEVICE|MATH_INLINE2?|MATH_INLINE|INLINE2?|NORETURN|UNLIKELY|LIKELY|VISIBILITY_\w+)\b\s*", "sub": ""},
    {"name": "if-constexpr", "re": r"\bif\s+constexpr\b", "sub": "if"},
    {"name": "constexpr-auto-decl", "re": r"\bconstexpr\s+(?:const\s+)?auto\s+(\w+)\s*=\s*([^;]+);", "sub": r"const __typeof__(\2) \1 = \2;"},
    {"name": "const-auto-decl", "re": r"\bconst\s+auto\s+(\w+)\s*=\s*([^;]+);", "sub": r"const __typeof__(\2) \1 = \2;"},
    {"name": "auto-decl", "re": r"(?<![\w&])auto\s+(\w+)\s*=\s*([^;]+);", "sub": r"__typeof__(\2) \1 = \2;"},
    {"name": "drop-constexpr", "re": r"\bconstexpr\s+", "sub": ""},
    {"name": "static_cast", "re": r"\bstatic_cast<\s*([\w:\s]+?)\s*>\s*\(", "sub": r"(\1)("},
    {"name": "std-qualifier", "re": r"\bstd::", "sub": "std_"},
    {"name": "scope-to-underscore", "re": r"(\w)::(\w)", "sub": r"\1_\2"},
    {"name": "scope-to-underscore-2", "re": r"(\w)::(\w)", "sub": r"\1_\2"},
    {"name": "nullptr", "re": r"\bnullptr\b", "sub": "((void*)0)"},
    {"name": "true-false", "re": r"\btrue\b", "sub": "1"},
    {"name": "false", "re": r"\bfalse\b", "sub": "0"},
    {"name": "unsigned-suffix-u", "re": r"\b(\d+)u\b", "sub": r"\1u"},
]


def extract(repo, name, file, pattern, ordinal=0, rules=(), generic=True, what="body", keep_comments=False):
    raw, line = locate(repo, file, pattern, ordinal, what)
    text = raw if keep_comments else strip_comments(raw)
    rl = list(rules) + (GENERIC_RULES if generic else [])
    text, fired = apply_rules(text, rl)
    return Extracted(name, file, line, raw, text, fired)
