/* E1 prelude: C renderings of the C++ library constructs the extracted text uses.
 * Each macro keeps the libstdc++ definition's argument order (assumed contract: libstdc++). */
#ifndef VERIF_PRELUDE_H
#define VERIF_PRELUDE_H
#include <stdint.h>
#include <stddef.h>
#include <stdbool.h>
/* platform macros used by preprocessor conditionals that survive inside extracted bodies (LDBL_MANT_DIG, ...) */
#include <float.h>
#include <limits.h>

#ifdef VACUITY
#define VACUITY_REACH __CPROVER_assert(0, "vacuity-reach")
#else
#define VACUITY_REACH ((void)0)
#endif

/* std::swap on lvalues of scalar type */
#define std_swap(a, b) do { __typeof__(a) _t = (a); (a) = (b); (b) = _t; } while (0)
/* std::min(a,b) = (b<a)?b:a ; std::max(a,b) = (a<b)?b:a  (libstdc++ bits/stl_algobase.h) */
#define std_min(a, b) (((b) < (a)) ? (b) : (a))
#define std_max(a, b) (((a) < (b)) ? (b) : (a))

/* bitwise identity of two doubles / floats (used by permutation postconditions) */
static inline uint64_t verif_bits64(double x) { union { double d; uint64_t u; } c; c.d = x; return c.u; }
static inline uint32_t verif_bits32(float x) { union { float d; uint32_t u; } c; c.d = x; return c.u; }
#define SAME64(a, b) (verif_bits64(a) == verif_bits64(b))

#endif
