"""E1 runner: extracted text + contract template -> goto-cc -> goto-instrument --dfcc -> cbmc."""
import json
import os
import re
import subprocess
import time
from concurrent.futures import ThreadPoolExecutor

from engines.common import Obligation, DISCHARGED, FAILED, UNDECIDED
from engines.cbmcc import extract as X

HERE = os.path.dirname(os.path.abspath(__file__))
MEM_KB = 16 * 1024 * 1024


class Job:
    def __init__(self, name, template, bodies=(), enforce=None, harness=None, replace=(),
                 loop_contracts=False, unwind=None, defines=(), cbmc_flags=(), min_obligations=1,
                 bounded=False, timeout=None, backend=None, checks=True, vacuity=True,
                 object_bits=None, note=None, expect_labels=(), needs=None, includes=(), stop_on_fail=False, drop_checks=()):
        self.name = name
        self.template = template
        self.bodies = list(bodies)
        self.enforce = enforce
        self.harness = harness or ("h_" + (enforce or name))
        self.replace = list(replace)
        self.loop_contracts = loop_contracts
        self.unwind = unwind
        self.defines = list(defines)
        self.cbmc_flags = list(cbmc_flags)
        self.min_obligations = min_obligations
        self.bounded = bounded
        self.timeout = timeout
        self.backend = backend  # None (SAT) | "--cvc5" | "--z3"
        self.checks = checks
        self.vacuity = vacuity
        self.object_bits = object_bits
        self.note = note
        self.expect_labels = list(expect_labels)
        self.stop_on_fail = stop_on_fail  # one query: first failing property only (vacuity probe then runs separately)
        self.includes = list(includes)  # extra -I for goto-cc (e.g. plain C headers of /repo)
        self.drop_checks = list(drop_checks)  # generated checks switched off for this job (stated in the spec)
        self.needs = needs  # names of the bodies this job depends on (None = all)


def _sh(cmd, timeout, cwd=None):
    """Run a shell command in its own process group; on timeout kill the whole group
    (cbmc spawns the SMT solver as a child, which would otherwise survive)."""
    import signal
    t0 = time.time()
    p = subprocess.Popen("ulimit -v %d; %s" % (MEM_KB, cmd), shell=True, cwd=cwd, stdout=subprocess.PIPE, stderr=subprocess.PIPE,
                         text=True, executable="/bin/bash", start_new_session=True)
    try:
        so, se = p.communicate(timeout=timeout)
        return p.returncode, so, se, time.time() - t0
    except subprocess.TimeoutExpired:
        try:
            os.killpg(p.pid, signal.SIGKILL)
        except OSError:
            pass
        try:
            p.communicate(timeout=5)
        except Exception:
            pass
        return -9, "", "timeout", time.time() - t0


def build_c(ctx, job):
    """Instantiate the template: each line `//@BODY <name>` is replaced by the extracted
    and transliterated text of that body."""
    tpl_path = os.path.join(ctx.spec_dir, job.template)
    tpl = open(tpl_path).read()
    # `//@INCLUDE file` : literal inclusion of a contract file shared between the job that proves
    # a function and the jobs that call it through --replace-call-with-contract
    def _inc(m):
        return open(os.path.join(ctx.spec_dir, m.group(1))).read()
    tpl = re.sub(r"^//@INCLUDE (\S+)\n", _inc, tpl, flags=re.M)
    descs = []
    for b in job.bodies:
        b = dict(b)
        name = b.pop("name")
        marker = "//@BODY %s\n" % name
        if job.needs is not None and name not in job.needs:
            # another function of the shared template: not part of this job (its own job extracts and checks it)
            tpl = tpl.replace(marker, "{ /* body of %s: not used by this job */ }\n" % name)
            continue
        ex = X.extract(ctx.repo, name, **b)
        if marker not in tpl:
            raise X.ExtractionDrift("template %s has no marker for body %s" % (job.template, name))
        tpl = tpl.replace(marker, ex.text + "\n")
        descs.append(ex.describe())
    if "//@BODY" in tpl:
        raise X.ExtractionDrift("template %s has unfilled body markers" % job.template)
    cfile = os.path.join(ctx.out, job.name + ".c")
    with open(cfile, "w") as f:
        f.write(tpl)
    return cfile, descs


def labels_of(cfile):
    """fn -> ordered labels of its __CPROVER_ensures clauses (`/*@ label */` at line end);
    also line -> label for other annotated lines (assigns clauses, loop invariants)."""
    ens, bylines = {}, {}
    cur = None
    for i, ln in enumerate(open(cfile), 1):
        m = re.match(r"^(?:static\s+)?[\w\s\*]+?\b(\w+)\s*\([^;{]*\)\s*$", ln)
        if m and not ln.startswith("__CPROVER") and not ln.startswith("#"):
            cur = m.group(1)
        lm = re.search(r"/\*@\s*([\w.\-:<>=,+ ]+?)\s*\*/", ln)
        lab = lm.group(1).replace(" ", "_") if lm else None
        if ln.lstrip().startswith("__CPROVER_ensures") and cur:
            ens.setdefault(cur, []).append(lab or "ensures@L%d" % i)
        elif lab:
            bylines[i] = lab
    return ens, bylines


def cbmc_pipeline(ctx, job, cfile, vac):
    base = os.path.splitext(cfile)[0]
    a, b = base + ".a.gb", base + ".b.gb"
    defs = " ".join("-D" + d for d in job.defines) + (" -DVACUITY" if vac else "")
    if job.stop_on_fail and vac is True:
        defs = " ".join("-D" + d for d in job.defines)  # the expected-to-fail probe would be the first failure
    tmo = job.timeout or (1800 if ctx.thorough else 240)
    cmds = []
    incs = " ".join("-I" + i for i in job.includes)
    cmd1 = "goto-cc -I%s -I%s -I%s %s %s --function %s %s -o %s" % (HERE, ctx.spec_dir, ctx.out, incs, defs, job.harness, cfile, a)
    rc, so, se, t1 = _sh(cmd1, 120)
    cmds.append(cmd1)
    if rc != 0:
        return None, "goto-cc failed: " + (se or so)[-800:], t1, cmds
    gi = "goto-instrument --dfcc %s" % job.harness
    if job.enforce:
        gi += " --enforce-contract %s" % job.enforce
    ctext = X.strip_comments(open(cfile).read())
    for r in job.replace:
        # goto-instrument aborts on a callee that is declared but never called: only name the ones this text calls
        if len(re.findall(r"\b%s\s*\(" % re.escape(r), ctext)) >= 2:
            gi += " --replace-call-with-contract %s" % r
    if job.loop_contracts:
        gi += " --apply-loop-contracts"
    if job.enforce or job.replace or job.loop_contracts:
        cmd2 = "%s %s %s" % (gi, a, b)
        rc, so, se, t2 = _sh(cmd2, 300)
        cmds.append(cmd2)
        if rc != 0:
            return None, "goto-instrument failed: " + (se or so)[-800:], t1 + t2, cmds
    else:
        b = a
        t2 = 0
    base_flags = ["--json-ui", "--trace"]
    if job.checks:
        base_flags += [f for f in ["--bounds-check", "--pointer-check", "--div-by-zero-check", "--signed-overflow-check", "--conversion-check"] if f not in job.drop_checks]
    if job.unwind:
        base_flags += ["--unwind %d" % job.unwind, "--unwinding-assertions"]
    if job.object_bits:
        base_flags += ["--object-bits %d" % job.object_bits]
    base_flags += job.cbmc_flags
    if job.stop_on_fail:
        base_flags += ["--property %s.assertion.1" % job.enforce] if vac == "only" else ["--stop-on-fail"]
    out = base + (".vac" if vac == "only" else "") + ".cbmc.json"
    # back-end portfolio: the job names one back end or a list tried in order (a timeout or an unreadable answer moves on)
    backends = job.backend if isinstance(job.backend, (list, tuple)) else [job.backend]
    t3 = 0.0
    rc = -9
    used = None
    if len(backends) == 1:
        flags = base_flags + ([backends[0]] if backends[0] else [])
        cmd3 = "cbmc %s %s > %s" % (b, " ".join(flags), out)
        rc, so, se, t3 = _sh(cmd3, tmo)
        cmds.append(cmd3)
        used = backends[0]
    else:
        # race: every back end of the portfolio runs concurrently; the first complete answer wins, the others are killed
        import signal
        procs = []
        t0 = time.time()
        for bi, be in enumerate(backends):
            flags = base_flags + ([be] if be else [])
            o = "%s.be%d.json" % (out, bi)
            cmd3 = "cbmc %s %s > %s" % (b, " ".join(flags), o)
            cmds.append(cmd3)
            p = subprocess.Popen("ulimit -v %d; %s" % (MEM_KB, cmd3), shell=True, stdout=subprocess.DEVNULL, stderr=subprocess.DEVNULL,
                                 executable="/bin/bash", start_new_session=True)
            procs.append((p, be, o))
        winner = None
        while time.time() - t0 < tmo and winner is None:
            alive = False
            for p, be, o in procs:
                if p.poll() is None:
                    alive = True
                    continue
                try:
                    d = json.load(open(o))
                    if any(("result" in e) or ("property" in e and "status" in e) for e in d):
                        winner = (be, o)
                        break
                except Exception:
                    pass
            if not alive and winner is None:
                break
            if winner is None:
                time.sleep(0.2)
        for p, be, o in procs:
            if p.poll() is None:
                try:
                    os.killpg(p.pid, signal.SIGKILL)
                except OSError:
                    pass
                try:
                    p.wait(timeout=5)
                except Exception:
                    pass
        t3 = time.time() - t0
        if winner:
            used = winner[0]
            os.replace(winner[1], out)
            rc = 0
        for p, be, o in procs:
            try:
                os.remove(o)
            except OSError:
                pass
    job.used_backend = used
    for f in (a, base + ".b.gb"):
        try:
            os.remove(f)
        except OSError:
            pass
    if rc == -9:
        return None, "cbmc timeout after %ds" % tmo, t1 + t2 + t3, cmds
    try:
        data = json.load(open(out))
    except Exception as e:
        return None, "cbmc output unreadable (rc=%s): %s %s" % (rc, e, se[-300:]), t1 + t2 + t3, cmds
    return data, None, t1 + t2 + t3, cmds


def parse_results(data):
    results, msgs, verdict = [], [], None
    for e in data:
        if "property" in e and "status" in e and "result" not in e:
            # --stop-on-fail: only the first failing property is reported, with its trace
            fn = e["property"].split(".")[0]
            line = 0
            for st in reversed(e.get("trace", [])):
                sl = st.get("sourceLocation", {})
                if sl.get("function") == fn and sl.get("line"):
                    line = sl["line"]
                    break
            results = results + [{"property": e["property"], "description": e.get("description", ""), "status": "FAILURE",
                                  "trace": e.get("trace", []), "sourceLocation": {"file": "@job-c-file", "function": fn, "line": line}}]
        if "result" in e:
            results = e["result"]
        if "messageText" in e:
            msgs.append(e["messageText"])
        if "cProverStatus" in e:
            verdict = e["cProverStatus"]
    return results, msgs, verdict


def _flatten(prefix, v, out):
    if "elements" in v:
        for el in v["elements"]:
            _flatten("%s[%s]" % (prefix, str(el.get("index")).rstrip("l")), el.get("value", {}), out)
    elif "members" in v:
        for el in v["members"]:
            _flatten("%s.%s" % (prefix, el.get("name")), el.get("value", {}), out)
    elif "binary" in v or "data" in v:
        out[prefix] = {"data": v.get("data"), "binary": v.get("binary"), "type": v.get("type") or v.get("name")}


def trace_inputs(trace, harness):
    """Values of the harness' `in_*` variables (last assignment inside the harness) and of
    is_fresh objects (dynamic_object$k..., in allocation order) from a counterexample trace."""
    vals = {}
    for s in trace:
        if s.get("stepType") != "assignment":
            continue
        lhs = s.get("lhs", "")
        v = s.get("value", {})
        fn = s.get("sourceLocation", {}).get("function")
        if lhs.startswith("g_") and "binary" in v:
            vals[lhs] = {"data": v.get("data"), "binary": v.get("binary"), "type": v.get("type") or v.get("name")}  # ghost state: last value wins
        elif (lhs.startswith("in_") and fn == harness) or (lhs.startswith("dynamic_object") and fn == "__CPROVER_contracts_is_fresh"):
            _flatten(re.sub(r"\[(\d+)l\]", r"[\1]", lhs), v, vals)
    return vals


def _mk_ob(ctx, job, nm, st, backend, t, detail, r, line, cfile, msgs, verdict):
    ob = Obligation(nm, st, backend, t, detail, bounded=job.bounded)
    if st == FAILED:
        ins = trace_inputs(r.get("trace", []), job.harness)
        ob.inputs = ins
        rp = os.path.join(ctx.out, re.sub(r"[^\w.\-]", "_", nm) + ".replay.json")
        json.dump({"property": ctx.pid, "obligation": nm, "job": job.name, "engine": "E1 cbmc",
                   "cbmc_property": r["property"], "description": r.get("description"),
                   "source_line": line, "c_file": cfile, "inputs": ins,
                   "verifier_output": {"status": r["status"], "verdict": verdict, "messages": msgs[-5:]}},
                  open(rp, "w"), indent=1)
        ob.replay = rp
    return ob


def run_job(ctx, job):
    """Returns (obligations, function descriptors, vacuity list, cmds)."""
    obs = []
    prefix = "%s/%s" % (ctx.pid, job.name)
    try:
        cfile, descs = build_c(ctx, job)
    except X.ExtractionDrift as e:
        return [Obligation(prefix + "/*", UNDECIDED, "extract", 0, "extraction drift: %s" % e, bounded=job.bounded)], [], [], []
    lab = labels_of(cfile)
    data, err, t, cmds = cbmc_pipeline(ctx, job, cfile, bool(job.vacuity))
    ub = getattr(job, "used_backend", None)
    backend = "cbmc-6.11/" + (ub.replace("--sat-solver ", "").strip("-") if ub else "sat")
    if data is None:
        return [Obligation(prefix + "/*", UNDECIDED, backend, t, err, bounded=job.bounded)], descs, [], cmds
    results, msgs, verdict = parse_results(data)
    ignoring = [m for m in msgs if "ignoring" in m]
    cbase = os.path.basename(cfile)
    user = []
    lib_bad = []
    probes = [r for r in results if "vacuity-reach" in r.get("description", "")]
    for r in results:
        if r in probes:
            continue
        loc = r.get("sourceLocation", {})
        f = os.path.basename(loc.get("file", ""))
        if f == cbase or f == "@job-c-file":
            user.append(r)
        elif r["status"] != "SUCCESS":
            lib_bad.append(r)
    if not results:
        return [Obligation(prefix + "/*", UNDECIDED, backend, t, "cbmc produced no results: " + " | ".join(msgs[-3:]), bounded=job.bounded)], descs, [], cmds
    seen = {}
    per = t / max(1, len(user))
    ens_labels, line_labels = lab
    groups = {}
    for r in user:
        loc = r.get("sourceLocation", {})
        line = int(loc.get("line", 0) or 0)
        parts = r["property"].split(".")
        cls = parts[-2] if len(parts) >= 2 else r["property"]
        fn = loc.get("function", "?")
        st = {"SUCCESS": DISCHARGED, "FAILURE": FAILED}.get(r["status"], UNDECIDED)
        detail = "%s [%s]" % (r.get("description", ""), r["property"])
        if ignoring and st == DISCHARGED:
            st, detail = UNDECIDED, "quantifier ignored by back end: " + ignoring[0]
        named = None
        if cls == "postcondition":
            k = int(parts[-1]) - 1
            ls = ens_labels.get(parts[0], [])
            named = ls[k] if k < len(ls) else "postcondition.%d" % (k + 1)
            fn = parts[0]
        elif cls == "assertion" and re.fullmatch(r"[\w.\-:<>=,+]+", r.get("description", "") or " "):
            named = r["description"]
        elif cls in ("loop_invariant_base", "loop_invariant_step", "loop_decreases", "precondition"):
            named = "%s%s" % (cls, ("@" + line_labels[line]) if line in line_labels else "@L%d" % line)
        if named is None:
            # generated safety / frame obligations: one aggregated obligation per function and class
            key = (fn, cls + ("@" + line_labels[line] if line in line_labels and cls == "assigns" else ""))
            g = groups.setdefault(key, {"n": 0, "bad": None, "und": None})
            g["n"] += 1
            if st == FAILED and g["bad"] is None:
                g["bad"] = (r, detail, line)
            elif st == UNDECIDED and g["und"] is None:
                g["und"] = detail
            continue
        nm = "%s/%s/%s" % (prefix, fn, named)
        k = seen.get(nm, 0)
        seen[nm] = k + 1
        if k:
            nm += "#%d" % k
        obs.append(_mk_ob(ctx, job, nm, st, backend, per, detail, r, line, cfile, msgs, verdict))
    for (fn, cls), g in sorted(groups.items()):
        nm = "%s/%s/safety:%s" % (prefix, fn, cls)
        if g["bad"]:
            r, detail, line = g["bad"]
            obs.append(_mk_ob(ctx, job, nm, FAILED, backend, per * g["n"], detail + " (1 of %d generated checks)" % g["n"], r, line, cfile, msgs, verdict))
        elif g["und"]:
            obs.append(Obligation(nm, UNDECIDED, backend, per * g["n"], g["und"], bounded=job.bounded))
        else:
            obs.append(Obligation(nm, DISCHARGED, backend, per * g["n"], "%d generated %s checks" % (g["n"], cls), bounded=job.bounded))
    for r in lib_bad:
        obs.append(Obligation("%s/lib/%s" % (prefix, r["property"]), FAILED if r["status"] == "FAILURE" else UNDECIDED,
                              backend, 0, r.get("description", ""), bounded=job.bounded))
    n_real = len([o for o in obs if "/safety:" not in o.name])
    stopped = job.stop_on_fail and any(o.status == FAILED for o in obs)
    if stopped:
        return obs, descs, [], cmds  # first failing property only: the other obligations were not evaluated in this run
    if n_real < job.min_obligations:
        obs.append(Obligation(prefix + "/*count", UNDECIDED, backend, 0,
                              "only %d obligations generated, spec records >= %d" % (n_real, job.min_obligations), bounded=job.bounded))
    have = set(o.name.split("/")[-1].split("#")[0] for o in obs)
    for el in job.expect_labels:
        if el not in have:
            obs.append(Obligation(prefix + "/*label:" + el, UNDECIDED, backend, 0, "expected obligation label %r not generated" % el, bounded=job.bounded))
    if job.loop_contracts and not any("loop_invariant_step" in (o.detail or "") or "loop_invariant_step" in o.name for o in obs):
        obs.append(Obligation(prefix + "/*loopcontract", UNDECIDED, backend, 0, "no loop_invariant_step obligation: loop contract silently dropped", bounded=job.bounded))
    vac = []
    if job.vacuity and job.stop_on_fail:
        d2, _e2, _t2, _c2 = cbmc_pipeline(ctx, job, cfile, "only")
        if d2 is not None:
            r2, _m2, _v2 = parse_results(d2)
            probes = [r for r in r2 if "vacuity-reach" in r.get("description", "")]
    if job.vacuity:
        # the reach probe `__CPROVER_assert(0)` placed after the requires must FAIL (assertions do not constrain the other obligations)
        vac = [("%s/vacuity:%s" % (prefix, r["property"]), r["status"] == "FAILURE") for r in probes if r.get("sourceLocation", {}).get("function") == job.enforce or not job.enforce]
        if not vac:
            vac = [(prefix + "/vacuity", False)]
    return obs, descs, vac, cmds


def run_jobs(ctx, jobs, replay_fn=None):
    ctx.trust("cbmc 6.11.0 (goto-cc C front end, goto-instrument --dfcc contract instrumentation, SAT/SMT back end)",
              "E1 extraction rules (engines/cbmcc/extract.py + per-function rules in the spec): C++ -> C transliteration is textual; statements, operators, constants and order are untouched",
              "gcc/glibc headers used by goto-cc for the C prelude")
    with ThreadPoolExecutor(max_workers=int(os.environ.get("VERIF_JOBS", "16"))) as ex:
        res = list(ex.map(lambda j: run_job(ctx, j), jobs))
    for job, (obs, descs, vac, cmds) in zip(jobs, res):
        for o in obs:
            if o.status == FAILED and replay_fn and o.replay:
                try:
                    o.reproduced = replay_fn(ctx, job, o)
                except Exception as e:  # replay trouble never hides the failed obligation
                    o.reproduced = None
                    o.detail += " (replay error: %s)" % e
                try:
                    d = json.load(open(o.replay))
                    d["reproduced_on_real_code"] = o.reproduced
                    json.dump(d, open(o.replay, "w"), indent=1)
                except Exception:
                    pass
            ctx.add(o)
        for d in descs:
            d = dict(d)
            d["job"] = job.name
            d["contract"] = "specs/%s/%s" % (ctx.pid, job.template)
            if job.bounded:
                d["bounded"] = True
            ctx.functions.append(d)
        ctx.vacuity.extend(vac)
        if cmds and len(ctx.checker_cmds) < 6:
            ctx.checker_cmds.append(" && ".join(c.replace(ctx.verif + "/", "") for c in cmds))
        if job.bounded:
            ctx.bounded_parts.append({"job": job.name, "unwind": job.unwind, "note": job.note})
