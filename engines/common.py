"""Shared protocol of the checks: obligations, known findings, evidence, exit codes."""
import json
import os
import re
import sys
import time

VERIF = os.path.dirname(os.path.dirname(os.path.abspath(__file__)))
REPO = os.environ.get("VERIF_REPO", "/repo")
# VERIF_SCRATCH relocates out/ and evidence/ (used by bin/run-seeded, which checks a scratch worktree while /verif/out and
# /verif/evidence stay those of /repo)
SCRATCH = os.environ.get("VERIF_SCRATCH", VERIF)

DISCHARGED, FAILED, UNDECIDED = "discharged", "failed", "undecided"


class Obligation:
    def __init__(self, name, status, backend="", time_s=0.0, detail="", replay=None,
                 reproduced=None, bounded=False, inputs=None, vc=None):
        self.name = name            # <ID>/<job>/<function>/<label>
        self.status = status
        self.backend = backend
        self.time_s = time_s
        self.detail = detail        # verifier's reason / description
        self.replay = replay        # path of replay file (failed only)
        self.reproduced = reproduced  # True/False/None (native replay outcome)
        self.bounded = bounded
        self.inputs = inputs
        self.vc = vc


class Ctx:
    """Everything a spec needs to run and report."""

    def __init__(self, pid, tier, seed):
        self.pid = pid
        self.tier = tier
        self.seed = seed
        self.repo = REPO
        self.verif = VERIF
        self.spec_dir = os.path.join(VERIF, "specs", pid)
        self.out = os.path.join(SCRATCH, "out", pid)
        os.makedirs(self.out, exist_ok=True)
        for f in os.listdir(self.out):  # replay files belong to one run
            if f.endswith(".replay.json"):
                os.remove(os.path.join(self.out, f))
        self.t0 = time.time()
        self.obligations = []
        self.functions = []        # descriptors of functions under contract
        self.assumptions = []
        self.trusted = []
        self.backends = {}
        self.checker_cmds = []
        self.vacuity = []          # (probe-name, ok)
        self.notes = []
        self.static_facts = []
        self.undecided_reasons = []
        self.bounded_parts = []
        self.level = "proof"
        self.extra_cov = {}

    @property
    def thorough(self):
        return self.tier == "thorough"

    def add(self, ob):
        self.obligations.append(ob)

    def undecided(self, name, reason):
        self.undecided_reasons.append((name, reason))

    def assume(self, *a):
        for x in a:
            if x not in self.assumptions:
                self.assumptions.append(x)

    def trust(self, *a):
        for x in a:
            if x not in self.trusted:
                self.trusted.append(x)


def load_known_findings(pid):
    """known_findings.txt lines:
       finding: property=<id> obligation=<regex> [input=<free text>] -- <what fails>
       fixed: property=<id> <commit> <what failed>           (suppresses nothing)"""
    path = os.path.join(VERIF, "known_findings.txt")
    res = []
    if not os.path.exists(path):
        return res
    for ln in open(path):
        ln = ln.strip()
        if not ln.startswith("finding:"):
            continue
        m = re.match(r"finding:\s+property=(\S+)\s+obligation=(\S+)\s*(.*)$", ln)
        if not m or m.group(1) != pid:
            continue
        rest = m.group(3)
        what = rest.split("--", 1)[1].strip() if "--" in rest else rest
        mi = re.search(r"input=(\S+)", rest)
        res.append({"obligation": m.group(2), "what": what, "input": mi.group(1) if mi else None, "line": ln})
    return res


def finish(ctx):
    """Classify, print, write evidence, return exit code."""
    pid = ctx.pid
    kfs = load_known_findings(pid)
    failed = [o for o in ctx.obligations if o.status == FAILED]
    und = [o for o in ctx.obligations if o.status == UNDECIDED]
    proof_obs = [o for o in ctx.obligations if not o.bounded]
    bounded_obs = [o for o in ctx.obligations if o.bounded]
    known_hit = {}
    violations = []
    for o in failed:
        hit = None
        for kf in kfs:
            if re.fullmatch(kf["obligation"], o.name):
                hit = kf
                break
        if hit:
            known_hit.setdefault(hit["line"], (hit, []))[1].append(o)
        else:
            violations.append(o)
    for line, (kf, obs) in known_hit.items():
        print("KNOWN-FINDING: property=%s %s [obligations: %s]" % (pid, kf["what"], ", ".join(o.name for o in obs)))
    for o in violations:
        tail = "" if o.reproduced else " no-failing-input-found"
        print("VIOLATION property=%s replay=%s%s" % (pid, o.replay or os.path.join(ctx.out, "noreplay.json"), tail))
        print("  failed obligation: %s (%s) %s" % (o.name, o.backend, o.detail[:300]))
    for o in und:
        print("UNDECIDED property=%s obligation=%s reason=%s" % (pid, o.name, o.detail[:300]))
    for n, r in ctx.undecided_reasons:
        print("UNDECIDED property=%s obligation=%s reason=%s" % (pid, n, r[:500]))
    vac_bad = [n for n, ok in ctx.vacuity if not ok]
    for n in vac_bad:
        print("UNDECIDED property=%s obligation=%s reason=vacuity probe did not fire (precondition contradictory or harness unreachable)" % (pid, n))

    kf_names = set(o.name for _kf, obs in known_hit.values() for o in obs)
    # obligations failing because of a listed known finding are reported on their own and are not part of the proof count
    proof_obs = [o for o in proof_obs if o.name not in kf_names]
    n_ob = len(proof_obs)
    n_dis = sum(1 for o in proof_obs if o.status == DISCHARGED)
    # obligations failing only because of a listed known finding are reported, and counted as not discharged
    by_backend = {}
    for o in ctx.obligations:
        b = by_backend.setdefault(o.backend or "?", {"n": 0, "time_s": 0.0})
        b["n"] += 1
        b["time_s"] = round(b["time_s"] + o.time_s, 3)
    samples = []
    for o in ctx.obligations[:4] + ctx.obligations[-2:]:
        s = {"obligation": o.name, "status": o.status, "backend": o.backend, "time_s": round(o.time_s, 3)}
        if o.vc:
            s["vc"] = o.vc
        if o.detail:
            s["detail"] = o.detail[:200]
        samples.append(s)
    cov = {
        "obligations": n_ob,
        "discharged": n_dis,
        "checker_cmd": " ; ".join(ctx.checker_cmds[:6]) or "n/a",
        "trusted_base": ctx.trusted,
        "samples": samples,
        "functions_under_contract": ctx.functions,
        "obligations_by_backend": by_backend,
        "solver_time_s": round(sum(o.time_s for o in ctx.obligations), 3),
        "failed": [o.name for o in failed],
        "known_findings_matched": [{"finding": kf["what"], "failing_obligations": [o.name for o in obs]} for kf, obs in known_hit.values()],
        "undecided": [o.name for o in und] + [n for n, _ in ctx.undecided_reasons],
        "vacuity_probes": {"run": len(ctx.vacuity), "ok": sum(1 for _, ok in ctx.vacuity if ok)},
        "supporting_static_facts": ctx.static_facts,
        "notes": ctx.notes,
        "all_obligations": [{"name": o.name, "status": o.status, "backend": o.backend, "time_s": round(o.time_s, 3), "bounded": o.bounded} for o in ctx.obligations],
    }
    if bounded_obs or ctx.bounded_parts:
        cov["bounded"] = {"obligations": len(bounded_obs),
                          "passed": sum(1 for o in bounded_obs if o.status == DISCHARGED),
                          "parts": ctx.bounded_parts,
                          "note": "bounded stand-ins; excluded from obligations/discharged, never counted as proved"}
    cov.update(ctx.extra_cov)
    level = ctx.level
    if level == "other":
        cov["explanation"] = ctx.extra_cov.get("explanation", "bounded check only; see coverage.bounded")
    ev = {
        "property_id": pid, "tier": ctx.tier, "seed": ctx.seed, "level": level,
        "coverage": cov, "assumptions": ctx.assumptions,
        "wall_s": round(time.time() - ctx.t0, 2), "violations": len(violations),
    }
    os.makedirs(os.path.join(SCRATCH, "evidence"), exist_ok=True)
    with open(os.path.join(SCRATCH, "evidence", pid + ".json"), "w") as f:
        json.dump(ev, f, indent=1)
    print("SUMMARY property=%s tier=%s obligations=%d discharged=%d failed=%d (known=%d) undecided=%d bounded=%d wall=%.1fs" % (
        pid, ctx.tier, n_ob, n_dis, len(failed), len(failed) - len(violations), len(und) + len(ctx.undecided_reasons) + len(vac_bad), len(bounded_obs), time.time() - ctx.t0))
    if violations:
        return 1
    if und or ctx.undecided_reasons or vac_bad:
        return 2
    if n_ob + len(bounded_obs) == 0:
        print("UNDECIDED property=%s obligation=* reason=no obligation generated" % pid)
        return 2
    return 0
