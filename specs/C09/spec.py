"""C09 — scalar Newton/bisection root finder (E1): contracts on the extracted text of BissectionAlgorithmBase and
scalarNewtonRaphson, loop contract on the main loop, the user function and the criterion arbitrary (nondeterministic stubs with ghost evaluation records)."""
import os

from engines.cbmcc.run import Job, run_jobs

FB = "include/TFEL/Math/NonLinearSolvers/BissectionAlgorithmBase.ixx"
FS = "include/TFEL/Math/NonLinearSolvers/ScalarNewtonRaphson.ixx"
THIS = {"name": "this-> : the bisection object", "re": r"this->", "sub": "g_b."}
ZERO = {"name": "value-initialised scalars", "re": r"\b(NumericType|IndexType)\{\}", "sub": r"((\1)0)"}
SAMESIGN = {"name": "static member haveSameSign", "re": r"BissectionAlgorithmBase::haveSameSign\(", "sub": "B_haveSameSign("}
NOCPP = {"name": "no unmapped C++ may remain", "forbid": r"this->|std::get|\[this\]|\[\]\("}
INV = ("0 <= i && i <= p.im && EVALUATED(x, fv) && g_escaped == 0 && g_calls <= 3ul + 2ul * (unsigned long)(i < 0 ? 0 : i)"
       " && (g_supplied ==> (VALID && g_lo <= g_b.xmin && g_b.xmax <= g_hi))"
       " && (converged ==> (FIN(x) && FIN(fv) && g_c_ret && SAMEV(g_c_fv, fv) && SAMEV(g_c_x, x) && g_c_i == i))")
BODIES = [
    dict(name="sgn_lambda", file=FB, pattern=r"auto sgn = \[\]\(const NumericType value\)", rules=[ZERO]),
    dict(name="haveSameSign", file=FB, pattern=r"bool BissectionAlgorithmBase<NumericType>::haveSameSign\(const NumericType a,", rules=[
        {"name": "drop the sgn lambda definition (extracted as a function)", "drop_block": r"auto sgn = \[\]\(const NumericType value\) \{", "min": 1}, NOCPP]),
    dict(name="update_range_lambda", file=FB, pattern=r"auto update_range = \[this\]\(const NumericType x1, const NumericType f1,\s*const NumericType x2, const NumericType f2\)", rules=[THIS, NOCPP]),
    dict(name="updateBounds", file=FB, pattern=r"void BissectionAlgorithmBase<NumericType>::updateBounds\(", rules=[
        {"name": "drop the update_range lambda definition (extracted as a function)", "drop_block": r"auto update_range = \[this\]\(const NumericType x1, const NumericType f1,\s*const NumericType x2, const NumericType f2\) \{", "min": 1},
        {"name": "calls of the lambda", "re": r"\bupdate_range\(", "sub": "B_update_range(", "min": 4}, THIS, SAMESIGN, NOCPP]),
    dict(name="iterate", file=FB, pattern=r"void BissectionAlgorithmBase<NumericType>::iterate\(NumericType& x\)", rules=[
        {"name": "member call with the reference argument", "re": r"this->getNextRootEstimate\(x\)", "sub": "B_getNextRootEstimate(p_x)", "min": 1, "max": 1}, THIS, SAMESIGN, NOCPP]),
    dict(name="getNextRootEstimate", file=FB, pattern=r"bool BissectionAlgorithmBase<NumericType>::getNextRootEstimate\(", rules=[THIS, SAMESIGN, NOCPP]),
    dict(name="scalarNewtonRaphson", file=FS, pattern=r"const ScalarNewtonRaphsonParameters<NumericType, IndexType>& p\)", rules=[
        {"name": "typed locals", "re": r"auto i = IndexType\{\};", "sub": "IndexType i = 0;", "min": 1, "max": 1},
        {"name": "typed locals x", "re": r"auto x = p\.x0;", "sub": "NumericType x = p.x0;", "min": 1, "max": 1},
        {"name": "bisection object: value-initialised (all NaN, BissectionAlgorithmData's member initialisers)", "re": r"auto b = BissectionAlgorithmBase<NumericType>\{\};",
         "sub": "g_b.xmin = NAN; g_b.fmin = NAN; g_b.xmax = NAN; g_b.fmax = NAN;", "min": 1, "max": 1},
        {"name": "typed locals dx", "re": r"auto dx = NumericType\{\};", "sub": "NumericType dx = 0;", "min": 1, "max": 1},
        {"name": "structured binding of the first evaluation", "re": r"auto \[fv, dfv\] = f\(p\.x0\);", "sub": "const pr r0 = f_stub(p.x0); NumericType fv = r0.v; NumericType dfv = r0.d;", "min": 1, "max": 1},
        {"name": "std::get<0>(f(.))", "re": r"std::get<0>\(f\(([\w.]+)\)\)", "sub": r"f_stub(\1).v", "min": 2, "max": 2},
        {"name": "evaluation into r", "re": r"const auto r = f\(x\);", "sub": "const pr r = f_stub(x);", "min": 2, "max": 2},
        {"name": "std::get<0>(r)", "re": r"std::get<0>\(r\)", "sub": "r.v", "min": 2, "max": 2},
        {"name": "std::get<1>(r)", "re": r"std::get<1>\(r\)", "sub": "r.d", "min": 2, "max": 2},
        {"name": "criterion call", "re": r"\bc\(fv, dx, x, i\)", "sub": "c_stub(fv, dx, x, i)", "min": 1, "max": 1},
        {"name": "b.updateBounds", "re": r"\bb\.updateBounds\(", "sub": "B_updateBounds(", "min": 3, "max": 3},
        {"name": "b.iterate(x)", "re": r"\bb\.iterate\(x\)", "sub": "B_iterate(&x)", "min": 2, "max": 2},
        {"name": "b.getNextRootEstimate(x)", "re": r"\bb\.getNextRootEstimate\(x\)", "sub": "B_getNextRootEstimate(&x)", "min": 1, "max": 1},
        {"name": "ghost: the supplied bracket, if valid, is installed at this point", "re": r"auto converged = false;",
         "sub": "if (SUPPLIED_BRACKET_OK(p)) { g_supplied = 1; g_lo = p.xmin0; g_hi = p.xmax0; }\n    bool converged = 0;", "min": 1, "max": 1},
        {"name": "typed flag", "re": r"auto have_valid_increment_estimate = false;", "sub": "bool have_valid_increment_estimate = 0;", "min": 1, "max": 1},
        {"name": "typed xold", "re": r"auto xold = x;", "sub": "const NumericType xold = x;", "min": 1, "max": 1},
        {"name": "main loop contract", "re": r"while \(\(!converged\) && \(i != p\.im\)\) \{",
         "sub": ("while ((!converged) && (i != p.im))\n"
                 "  __CPROVER_assigns(i, x, fv, dfv, dx, converged, g_b.xmin, g_b.fmin, g_b.xmax, g_b.fmax, g_calls, gA_x, gA_v, gB_x, gB_v, g_escaped, g_c_ret, g_c_fv, g_c_x, g_c_i)\n"
                 "  __CPROVER_loop_invariant(" + INV + ")\n"
                 "  __CPROVER_decreases((converged ? 0ul : 1ul) + (unsigned long)(p.im - i))\n"
                 "  {"), "min": 1, "max": 1},
        NOCPP]),
]


def run(ctx):
    ctx.assume("the user function returns arbitrary doubles (NaN, infinities) at every call (not even assumed deterministic); the stopping criterion is an arbitrary predicate; ghost records keep the first and the last evaluation",
               "ieee754::isfinite/isnan/fpclassify are replaced by CBMC's predicates, to which C16 proves them equal for every bit pattern",
               "tfel::math::abs on doubles is (s < 0) ? -s : s (Abs.hxx); std::tuple/std::get/structured bindings are rendered as a plain struct",
               "'a valid sign-changing bracket is supplied' = xmin0 < xmax0 finite with finite function values of opposite (non-equal) sign; 'later estimates' = every evaluation of the user function made after the bracket is installed",
               "ghost statement inserted at the point where the supplied bracket has been installed (records [xmin0,xmax0]); it writes ghost variables only")
    tpl = os.path.join(ctx.spec_dir, "snr.c.in")
    members = ["B_haveSameSign", "B_updateBounds", "B_getNextRootEstimate", "B_iterate"]
    need = {"B_haveSameSign": ["sgn_lambda", "haveSameSign"], "B_updateBounds": ["sgn_lambda", "haveSameSign", "update_range_lambda", "updateBounds"],
            "B_getNextRootEstimate": ["sgn_lambda", "haveSameSign", "getNextRootEstimate"], "B_iterate": ["sgn_lambda", "haveSameSign", "getNextRootEstimate", "iterate"]}
    jobs = []
    for m in members:
        repl = [x for x in ("B_haveSameSign", "B_getNextRootEstimate") if x != m and (m != "B_haveSameSign")]
        jobs.append(Job(m, tpl, bodies=BODIES, enforce=m, replace=repl, needs=need[m], min_obligations=1))
    jobs.append(Job("scalarNewtonRaphson", tpl, bodies=BODIES, enforce="scalarNewtonRaphson", replace=["B_updateBounds", "B_getNextRootEstimate", "B_iterate"], loop_contracts=True,
                    needs=["sgn_lambda", "haveSameSign", "update_range_lambda", "updateBounds", "getNextRootEstimate", "iterate", "scalarNewtonRaphson"], min_obligations=5,
                    timeout=1500 if ctx.thorough else 600))
    jobs.append(Job("scalarNewtonRaphson_signed_index", tpl, bodies=BODIES, enforce="scalarNewtonRaphson", replace=["B_updateBounds", "B_getNextRootEstimate", "B_iterate"], loop_contracts=True,
                    needs=["sgn_lambda", "haveSameSign", "update_range_lambda", "updateBounds", "getNextRootEstimate", "iterate", "scalarNewtonRaphson"], min_obligations=5,
                    defines=["SIGNED_INDEX"], timeout=1500 if ctx.thorough else 600))
    run_jobs(ctx, jobs, replay_fn=replay)


def replay(ctx, job, ob):
    """Bracket of the counterexample replayed on the real BissectionAlgorithmBase<double>::getNextRootEstimate (replay/C09.cxx)."""
    from engines import replay as R
    ins = ob.inputs or {}
    keys = ["in_b.xmin", "in_b.fmin", "in_b.xmax", "in_b.fmax"]
    if job.name not in ("B_getNextRootEstimate", "B_iterate") or not all(k in ins and ins[k].get("binary") for k in keys):
        return None
    args = [R.bits_hex(ins[k]["binary"]) for k in keys]
    ok, out = R.native(ctx, "C09.cxx", args, extra_flags="-w", extra_src=())
    ob.detail += " | native replay: %s" % out.strip().replace("\n", " ; ")[-300:]
    return ok
