// C03 (2D, default solver only) — stensor<2>::computeEigenValues / computeEigenVectors with the default (closed-form) solver, over the
// reals with the code's own tolerances read as exact numbers: eigenvalues are the roots of the characteristic polynomial, the eigenvector
// matrix is orthonormal, and each eigenpair residual is either zero (regular branch) or bounded by the tolerance of the branch taken
// (nearly repeated eigenvalues, negligible shear): |r_k| <= 10 eps max(|vp0|,|vp1|) + 200 min.
#include "vsym/traits.hxx"
#include "TFEL/Math/stensor.hxx"
#include "vsym/driver.hxx"
#include "common/mandel.hxx"
using namespace tfel::math;
using namespace spec;

template <class E> void c_eigen2d(E& e) {
  using T = typename E::real;
  const auto s = sym_stensor<2u>(e, "s");
  const T eps = std::numeric_limits<T>::epsilon(), tiny = std::numeric_limits<T>::min();
  tvector<3u, T> vp;
  tmatrix<3u, 3u, T> m;
  bool raised = false;
  try {
    std::tie(vp, m) = s.computeEigenVectors();
  } catch (std::exception&) {
    raised = true;
  }
  if (raised) {
    // the solver may refuse (documented): only when a pivot of the eigenvector computation is below 100*min, i.e. for a tensor that
    // small; nothing else is claimed on that path
    e.ensure("a refusal happens only for tensors with all in-plane entries tiny", e.lt(tfel::math::abs(s[3]), T(1000) * tiny));
    return;
  }
  tvector<3u, T> vp2;
  s.computeEigenValues(vp2);
  e.ensure("computeEigenValues and computeEigenVectors return the same eigenvalues", e.eq(vp2(0), vp(0)) && e.eq(vp2(1), vp(1)) && e.eq(vp2(2), vp(2)));
  e.ensure("out-of-plane eigenvalue is s_zz", e.eq(vp(2), s[2]));
  e.ensure("in-plane eigenvalues: sum = trace of the in-plane block", e.eq(vp(0) + vp(1), s[0] + s[1]));
  e.ensure("in-plane eigenvalues: product = determinant of the in-plane block", e.eq(vp(0) * vp(1), s[0] * s[1] - s[3] * s[3] / T(2)));
  const auto mm = of_tmatrix(m);
  ensure_mat_eq(e, "eigenvector matrix is orthonormal: m^T.m = I", mul(tr(mm), mm), id3<T>());
  e.ensure("eigenvector matrix is a rotation: det m = 1", e.eq(det3(mm), T(1)));
  const auto ms = M<2u, T>(e, s);
  const T a0 = tfel::math::abs(vp(0)), a1 = tfel::math::abs(vp(1));
  // absolute floor: below 100*min the eigenvector computation gives up (its report is ignored by computeEigenVectors) and the identity is returned
  const T tol0 = T(10) * eps * a0 + T(200) * tiny, tol1 = T(10) * eps * a1 + T(200) * tiny;
  for (int i = 0; i < 3; ++i)
    for (int k = 0; k < 3; ++k) {
      T r = -vp(i) * mm[k][i];
      for (int j = 0; j < 3; ++j) r = r + ms[k][j] * mm[j][i];
      e.ensure("residual (s.v_" + std::to_string(i) + " - vp_" + std::to_string(i) + " v_" + std::to_string(i) + ")_" + std::to_string(k) + " is zero or within the tolerance of the branch taken",
               e.eq(r, T(0)) || ((e.le(r, tol0) || e.le(r, tol1)) && (e.le(-r, tol0) || e.le(-r, tol1))));
    }
}
VSYM_CONTRACT_P("stensor<2>/default solver", c_eigen2d, 200)
int main(int argc, char** argv) { return vsym::driver_main(argc, argv); }
