"""C03 — eigen decomposition, 2D default solver only (E2)."""
from engines.symvc.discharge import run_spec


def run(ctx):
    ctx.assume("ONLY stensor<2> with the default (closed-form) solver: eigenvalues tr/2 +- sqrt(...), eigenvector by elimination and normalisation, with the code's own tolerances (epsilon, min) read as exact real numbers",
               "NOT covered: every 3D solver (Cardano with acos/cos, FSES Jacobi/QL/Cuppen/hybrid, Gte QR, Harari), the FSES 2D specialisations, rounding (the claim is over the reals), 'finite in, finite out'",
               "tolerance branches: nearly repeated eigenvalues (identity eigenvectors) and negligible shear (axis eigenvectors) are allowed a residual of 10 eps max|vp| + 200 min per component (the absolute floor covers the sub-1e-305 regime where the eigenvector computation gives up, its boolean report is ignored by computeEigenVectors and the identity is returned); the regular branch is exact")
    srcs = " ".join("%s/src/%s" % (ctx.repo, f) for f in ("Math/MathException.cxx", "Exception/TFELException.cxx", "Math/StensorComputeEigenValues.cxx"))
    import os
    srcs = " ".join(x for x in srcs.split() if os.path.exists(x))
    run_spec(ctx, flags=srcs, expect_min=20, per_timeout=300 if ctx.thorough else 120)
