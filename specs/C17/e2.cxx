// C17 — expression templates and views behave like eager element-wise code (E2, shapes enumerated). Every object holds distinct
// symbols; the result of the real expression-template / view machinery is compared, cell by cell, with naive loops written here.
// Writes through a view are checked with a frame: every cell of the underlying storage is compared with its expected content.
#include "vsym/traits.hxx"
#include <array>
#include <vector>
#include "TFEL/Math/tvector.hxx"
#include "TFEL/Math/tmatrix.hxx"
#include "TFEL/Math/stensor.hxx"
#include "TFEL/Math/tensor.hxx"
#include "TFEL/Math/vector.hxx"
#include "TFEL/Math/fsarray.hxx"
#include "TFEL/Math/runtime_array.hxx"
#include "TFEL/Math/Array/View.hxx"
#include "TFEL/Math/Array/CoalescedView.hxx"
#include "TFEL/Math/Array/StridedCoalescedView.hxx"
#include "vsym/driver.hxx"
using namespace tfel::math;

static std::string ix(unsigned i) { return "[" + std::to_string(i) + "]"; }
static std::string ix(unsigned i, unsigned j) { return "(" + std::to_string(i) + "," + std::to_string(j) + ")"; }
template <unsigned short N, class E> tvector<N, typename E::real> symv(E& e, const std::string& n) {
  tvector<N, typename E::real> v;
  for (unsigned short i = 0; i < N; ++i) v(i) = e.var(n + std::to_string(i));
  return v;
}
template <unsigned short R, unsigned short C, class E> tmatrix<R, C, typename E::real> symm(E& e, const std::string& n) {
  tmatrix<R, C, typename E::real> m;
  for (unsigned short i = 0; i < R; ++i) for (unsigned short j = 0; j < C; ++j) m(i, j) = e.var(n + std::to_string(i) + "_" + std::to_string(j));
  return m;
}
// ---- fixed-size vectors ---------------------------------------------------------------------------------------------------------
template <unsigned short N, class E> void c_tvector(E& e) {
  using T = typename E::real;
  const auto a = symv<N>(e, "a"), b = symv<N>(e, "b"), c = symv<N>(e, "c");
  const T k = e.var("k");
  e.require(!e.eq(k, T(0)));
  const tvector<N, T> r1 = a + b, r2 = a - b, r3 = k * a, r4 = a * k, r5 = a / k, r6 = -a;
  const tvector<N, T> r7 = 2 * a - (b + c) / k + (-c) * 3;
  T dot = T(0);
  for (unsigned short i = 0; i < N; ++i) dot = dot + a(i) * b(i);
  e.ensure("a|b = sum a_i b_i", e.eq(a | b, dot));
  for (unsigned short i = 0; i < N; ++i) {
    e.ensure("a+b" + ix(i), e.eq(r1(i), a(i) + b(i)));
    e.ensure("a-b" + ix(i), e.eq(r2(i), a(i) - b(i)));
    e.ensure("k*a" + ix(i), e.eq(r3(i), k * a(i)));
    e.ensure("a*k" + ix(i), e.eq(r4(i), a(i) * k));
    e.ensure("a/k" + ix(i), e.eq(r5(i), a(i) / k));
    e.ensure("-a" + ix(i), e.eq(r6(i), -a(i)));
    e.ensure("2a-(b+c)/k+(-c)*3" + ix(i), e.eq(r7(i), T(2) * a(i) - (b(i) + c(i)) / k - c(i) * T(3)));
  }
  // compound assignments and aliasing destinations (element-wise expressions)
  auto x = a;
  x += b;
  auto y = a;
  y -= 2 * b;
  auto z = a;
  z *= k;
  auto w = a;
  w /= k;
  auto u = a;
  u = u + b;          // destination aliases the left operand
  auto v = a;
  v = b - 2 * v + v;  // destination aliases two operands
  for (unsigned short i = 0; i < N; ++i) {
    e.ensure("x+=b" + ix(i), e.eq(x(i), a(i) + b(i)));
    e.ensure("y-=2b" + ix(i), e.eq(y(i), a(i) - T(2) * b(i)));
    e.ensure("z*=k" + ix(i), e.eq(z(i), a(i) * k));
    e.ensure("w/=k" + ix(i), e.eq(w(i), a(i) / k));
    e.ensure("u=u+b" + ix(i), e.eq(u(i), a(i) + b(i)));
    e.ensure("v=b-2v+v" + ix(i), e.eq(v(i), b(i) - T(2) * a(i) + a(i)));
  }
  // slices
  if constexpr (N >= 3) {
    auto s = a;
    auto s1 = s.template slice<1>();
    for (unsigned short i = 1; i < N; ++i) e.ensure("slice<1> reads cell" + ix(i), e.eq(s1[i - 1], a(i)));
    s1[0] = k;
    for (unsigned short i = 0; i < N; ++i) e.ensure("write through slice<1>: frame" + ix(i), e.eq(s(i), i == 1 ? k : a(i)));
    auto s2 = s.template slice<0, 2>();
    s2 = 2 * s2;
    for (unsigned short i = 0; i < N; ++i) e.ensure("slice<0,2> = 2*slice (aliasing): frame" + ix(i), e.eq(s(i), i == 0 ? T(2) * a(0) : i == 1 ? T(2) * k : a(i)));
  }
}
// ---- fixed-size matrices --------------------------------------------------------------------------------------------------------
template <class E> void c_tmatrix(E& e) {
  using T = typename E::real;
  const auto A = symm<2, 3>(e, "A"), B = symm<2, 3>(e, "B");
  const auto C = symm<3, 2>(e, "C");
  const auto v = symv<3>(e, "v");
  const auto w = symv<2>(e, "w");
  const T k = e.var("k");
  e.require(!e.eq(k, T(0)));
  const tmatrix<2, 3, T> r1 = A + B, r2 = A - B, r3 = k * A, r4 = A / k, r5 = -A, r6 = 2 * A - B / k;
  for (unsigned short i = 0; i < 2; ++i) for (unsigned short j = 0; j < 3; ++j) {
    e.ensure("A+B" + ix(i, j), e.eq(r1(i, j), A(i, j) + B(i, j)));
    e.ensure("A-B" + ix(i, j), e.eq(r2(i, j), A(i, j) - B(i, j)));
    e.ensure("k*A" + ix(i, j), e.eq(r3(i, j), k * A(i, j)));
    e.ensure("A/k" + ix(i, j), e.eq(r4(i, j), A(i, j) / k));
    e.ensure("-A" + ix(i, j), e.eq(r5(i, j), -A(i, j)));
    e.ensure("2A-B/k" + ix(i, j), e.eq(r6(i, j), T(2) * A(i, j) - B(i, j) / k));
  }
  const tmatrix<2, 2, T> P = A * C;
  for (unsigned short i = 0; i < 2; ++i) for (unsigned short j = 0; j < 2; ++j) {
    T s = T(0);
    for (unsigned short l = 0; l < 3; ++l) s = s + A(i, l) * C(l, j);
    e.ensure("A*C" + ix(i, j), e.eq(P(i, j), s));
  }
  const tvector<2, T> Av = A * v;
  for (unsigned short i = 0; i < 2; ++i) {
    T s = T(0);
    for (unsigned short l = 0; l < 3; ++l) s = s + A(i, l) * v(l);
    e.ensure("A*v" + ix(i), e.eq(Av(i), s));
  }
  const tvector<3, T> wA = w * A;
  for (unsigned short j = 0; j < 3; ++j) {
    T s = T(0);
    for (unsigned short l = 0; l < 2; ++l) s = s + w(l) * A(l, j);
    e.ensure("w*A" + ix(j), e.eq(wA(j), s));
  }
  const tmatrix<3, 2, T> At = transpose(A);
  for (unsigned short i = 0; i < 2; ++i) for (unsigned short j = 0; j < 3; ++j) e.ensure("transpose" + ix(j, i), e.eq(At(j, i), A(i, j)));
  // row / column / sub-matrix views: index mapping on read, frame on write
  {
    auto m = A;
    const tvector<3, T> r0 = static_cast<const tmatrix<2, 3, T>&>(m).template row_view<0>();
    const tvector<3, T> r1v = static_cast<const tmatrix<2, 3, T>&>(m).template row_view<1>();
    const tvector<2, T> c2 = static_cast<const tmatrix<2, 3, T>&>(m).template column_view<2>();
    for (unsigned short j = 0; j < 3; ++j) e.ensure("row_view<0> reads" + ix(0, j), e.eq(r0(j), A(0, j)));
    for (unsigned short j = 0; j < 3; ++j) e.ensure("row_view<1> reads" + ix(1, j), e.eq(r1v(j), A(1, j)));
    for (unsigned short i = 0; i < 2; ++i) e.ensure("column_view<2> reads" + ix(i, 2), e.eq(c2(i), A(i, 2)));
    m.template row_view<1>() = 2 * r1v + v;
    for (unsigned short i = 0; i < 2; ++i) for (unsigned short j = 0; j < 3; ++j)
      e.ensure("write through row_view<1>: frame" + ix(i, j), e.eq(m(i, j), i == 1 ? T(2) * A(1, j) + v(j) : A(i, j)));
    auto n = A;
    n.template column_view<1>() = w;
    for (unsigned short i = 0; i < 2; ++i) for (unsigned short j = 0; j < 3; ++j)
      e.ensure("write through column_view<1>: frame" + ix(i, j), e.eq(n(i, j), j == 1 ? w(i) : A(i, j)));
    n.template column_view<2>() = 2 * n.template column_view<2>() - n.template column_view<0>();
    for (unsigned short i = 0; i < 2; ++i) for (unsigned short j = 0; j < 3; ++j)
      e.ensure("col2 = 2 col2 - col0 through views: frame" + ix(i, j), e.eq(n(i, j), j == 1 ? w(i) : j == 2 ? T(2) * A(i, 2) - A(i, 0) : A(i, j)));
    auto q = A;
    q.template row_view<0>() = 3 * q.template row_view<0>() - q.template row_view<1>();  // destination aliases an operand
    for (unsigned short i = 0; i < 2; ++i) for (unsigned short j = 0; j < 3; ++j)
      e.ensure("row0 = 3 row0 - row1 through views: frame" + ix(i, j), e.eq(q(i, j), i == 0 ? T(3) * A(0, j) - A(1, j) : A(i, j)));
    auto p = A;
    const tmatrix<1, 2, T> sub = static_cast<const tmatrix<2, 3, T>&>(p).template submatrix_view<1, 1, 1, 2>();
    e.ensure("submatrix_view<1,1,1,2> reads", e.eq(sub(0, 0), A(1, 1)) && e.eq(sub(0, 1), A(1, 2)));
    p.template submatrix_view<0, 0, 1, 2>() = sub;
    for (unsigned short i = 0; i < 2; ++i) for (unsigned short j = 0; j < 3; ++j)
      e.ensure("write through submatrix_view<0,0,1,2>: frame" + ix(i, j), e.eq(p(i, j), (i == 0 && j < 2) ? A(1, j + 1) : A(i, j)));
  }
}
// ---- views on raw storage ---------------------------------------------------------------------------------------------------------
template <class E> void c_views(E& e) {
  using T = typename E::real;
  const auto buf0 = symv<12>(e, "m");
  const T k = e.var("k");
  {  // contiguous views: map<stensor>(pointer), offset form, arrays of views
    auto buf = buf0;
    auto s1 = map<stensor<2u, T>>(buf.data());
    auto s2 = map<stensor<2u, T>, 4>(buf);
    for (unsigned short i = 0; i < 4; ++i) e.ensure("map<stensor<2>>(p) reads cell" + ix(i), e.eq(s1[i], buf0(i)));
    for (unsigned short i = 0; i < 4; ++i) e.ensure("map<stensor<2>,4>(v) reads cell" + ix(4 + i), e.eq(s2[i], buf0(4 + i)));
    s2 = k * s1 - s2;
    for (unsigned short i = 0; i < 12; ++i) e.ensure("s2 = k*s1 - s2 through views: frame" + ix(i), e.eq(buf(i), (i >= 4 && i < 8) ? k * buf0(i - 4) - buf0(i) : buf0(i)));
    auto arr = map_array<tvector<2u, stensor<2u, T>>>(buf.data() + 4);
    for (unsigned short a = 0; a < 2; ++a) for (unsigned short i = 0; i < 4; ++i) e.ensure("map_array reads item " + std::to_string(a) + ix(i), e.eq(arr[a][i], buf(4 + 4 * a + i)));
    const auto before = buf;
    arr[1] = 2 * arr[0];
    for (unsigned short i = 0; i < 12; ++i) e.ensure("arr[1] = 2*arr[0]: frame" + ix(i), e.eq(buf(i), i >= 8 ? T(2) * before(i - 4) : before(i)));
    auto arr2 = map<2u, stensor<2u, T>>(buf);
    for (unsigned short a = 0; a < 2; ++a) for (unsigned short i = 0; i < 4; ++i) e.ensure("map<2,stensor<2>>(v) reads item " + std::to_string(a) + ix(i), e.eq(arr2[a][i], buf(4 * a + i)));
    auto v8 = map<8u, T>(buf);
    for (unsigned short i = 0; i < 8; ++i) e.ensure("map<8,T>(v) reads cell" + ix(i), e.eq(v8[i], buf(i)));
  }
  {  // coalesced view: one pointer per component
    auto buf = buf0;
    std::array<T*, 4> ptrs{&buf[1], &buf[3], &buf[5], &buf[7]};
    std::array<const T*, 4> cptrs{&buf[0], &buf[2], &buf[4], &buf[6]};
    auto s1 = map<stensor<2u, T>>(ptrs);
    const auto s2 = map<const stensor<2u, T>>(cptrs);
    for (unsigned short i = 0; i < 4; ++i) e.ensure("coalesced view reads its own pointer" + ix(i), e.eq(s1[i], buf0(2 * i + 1)) && e.eq(s2(i), buf0(2 * i)));
    s1 = 2 * s1 + s2;
    for (unsigned short i = 0; i < 12; ++i) e.ensure("s1 = 2*s1 + s2 through coalesced views: frame" + ix(i), e.eq(buf(i), (i < 8 && i % 2 == 1) ? T(2) * buf0(i) + buf0(i - 1) : buf0(i)));
  }
  {  // strided coalesced view
    auto buf = buf0;
    auto s1 = map_strided<stensor<2u, T>>(&buf[0], 3);
    const auto s2 = map_strided<const stensor<2u, T>>(&buf[1], 3);
    for (unsigned short i = 0; i < 4; ++i) e.ensure("strided view reads cell offset + stride*i" + ix(i), e.eq(s1[i], buf0(3 * i)) && e.eq(s2[i], buf0(3 * i + 1)));
    s1 = s1 - k * s2;
    for (unsigned short i = 0; i < 12; ++i) e.ensure("s1 = s1 - k*s2 through strided views: frame" + ix(i), e.eq(buf(i), (i % 3 == 0) ? buf0(i) - k * buf0(i + 1) : buf0(i)));
  }
}
// ---- run-time sized and array containers -------------------------------------------------------------------------------------------
template <class E> void c_runtime(E& e) {
  using T = typename E::real;
  const T k = e.var("k");
  e.require(!e.eq(k, T(0)));
  const unsigned short n = 3;
  vector<T> a(n), b(n);
  for (unsigned short i = 0; i < n; ++i) { a(i) = e.var("a" + std::to_string(i)); b(i) = e.var("b" + std::to_string(i)); }
  vector<T> r1(n), r2(n);
  r1 = a + b;
  r2 = 2 * a - b / k;
  auto x = a;
  x = x - b;
  x += 2 * b;
  for (unsigned short i = 0; i < n; ++i) {
    e.ensure("vector a+b" + ix(i), e.eq(r1(i), a(i) + b(i)));
    e.ensure("vector 2a-b/k" + ix(i), e.eq(r2(i), T(2) * a(i) - b(i) / k));
    e.ensure("vector x=x-b; x+=2b" + ix(i), e.eq(x(i), a(i) - b(i) + T(2) * b(i)));
  }
  fsarray<3, T> f, g;
  for (unsigned short i = 0; i < 3; ++i) { f[i] = a(i); g[i] = b(i); }
  const fsarray<3, T> h = f + g;
  const fsarray<3, T> h2 = k * f - g;
  for (unsigned short i = 0; i < 3; ++i) e.ensure("fsarray f+g, kf-g" + ix(i), e.eq(h[i], a(i) + b(i)) && e.eq(h2[i], k * a(i) - b(i)));
  runtime_array<T> p(3), q(3);
  for (unsigned short i = 0; i < 3; ++i) { p[i] = a(i); q[i] = b(i); }
  runtime_array<T> pq(3);
  pq = p + q;
  auto p2 = p;
  p2 = 2 * p2 - q;
  for (unsigned short i = 0; i < 3; ++i) e.ensure("runtime_array p+q, p=2p-q" + ix(i), e.eq(pq[i], a(i) + b(i)) && e.eq(p2[i], T(2) * a(i) - b(i)));
}
// ---- tensors (element-wise part; products are C01/C02) ------------------------------------------------------------------------------
template <unsigned short N, class E> void c_tensors(E& e) {
  using T = typename E::real;
  stensor<N, T> s, t;
  tensor<N, T> F, G;
  for (unsigned short i = 0; i < s.size(); ++i) { s[i] = e.var("s" + std::to_string(i)); t[i] = e.var("t" + std::to_string(i)); }
  for (unsigned short i = 0; i < F.size(); ++i) { F[i] = e.var("F" + std::to_string(i)); G[i] = e.var("G" + std::to_string(i)); }
  const T k = e.var("k");
  e.require(!e.eq(k, T(0)));
  const stensor<N, T> r = 2 * s - t / k + (-s);
  for (unsigned short i = 0; i < s.size(); ++i) e.ensure("stensor 2s-t/k+(-s)" + ix(i), e.eq(r[i], T(2) * s[i] - t[i] / k - s[i]));
  const tensor<N, T> R = k * F + G - 3 * (F - G);
  for (unsigned short i = 0; i < F.size(); ++i) e.ensure("tensor kF+G-3(F-G)" + ix(i), e.eq(R[i], k * F[i] + G[i] - T(3) * (F[i] - G[i])));
  auto u = s;
  u = u + 2 * t - u / k;  // aliasing destination
  for (unsigned short i = 0; i < s.size(); ++i) e.ensure("stensor u=u+2t-u/k" + ix(i), e.eq(u[i], s[i] + T(2) * t[i] - s[i] / k));
}
template <class E> void v1(E& e) { c_tvector<1>(e); } VSYM_CONTRACT("tvector<1>", v1)
template <class E> void v3(E& e) { c_tvector<3>(e); } VSYM_CONTRACT("tvector<3>", v3)
template <class E> void v4(E& e) { c_tvector<4>(e); } VSYM_CONTRACT("tvector<4>", v4)
VSYM_CONTRACT("tmatrix<2,3>", c_tmatrix)
VSYM_CONTRACT("views on raw storage", c_views)
VSYM_CONTRACT("vector, fsarray, runtime_array", c_runtime)
template <class E> void t1(E& e) { c_tensors<1>(e); } VSYM_CONTRACT("stensor/tensor 1D", t1)
template <class E> void t2(E& e) { c_tensors<2>(e); } VSYM_CONTRACT("stensor/tensor 2D", t2)
template <class E> void t3(E& e) { c_tensors<3>(e); } VSYM_CONTRACT("stensor/tensor 3D", t3)
#ifdef VERIF_THOROUGH
template <class E> void v9(E& e) { c_tvector<9>(e); } VSYM_CONTRACT("tvector<9>", v9)
#endif
int main(int argc, char** argv) { return vsym::driver_main(argc, argv); }
