"""C17 — expression templates and views behave like eager element-wise code (E2, shapes enumerated)."""
from engines.symvc.discharge import run_spec


def run(ctx):
    ctx.assume("shapes are enumerated (tvector<1,3,4> (thorough 9), tmatrix<2,3> with tmatrix<3,2> / tvector operands, stensor/tensor 1D-3D, vector / fsarray / runtime_array of size 3, a 12-cell buffer for the views); each shape is complete over all real cell values",
               "aliasing destinations are covered for element-wise expressions only (x = x + b, view = f(view)); lazily evaluated matrix products into an operand are not part of the claim",
               "views: map<stensor>(pointer), offset form, map_array / map<N,...> arrays of views, map<N,T>, coalesced views (one pointer per component), strided coalesced views, tvector slices, tmatrix row / column / sub-matrix views; every write is checked with a frame over the whole underlying storage",
               "NOT covered: tfel::math::matrix arithmetic (it has no operators), quantities (qt), views of 4th-order tensors, derivative views, every other shape")
    run_spec(ctx, flags="-DVERIF_THOROUGH" if ctx.thorough else "", expect_min=300, per_timeout=120 if ctx.thorough else 30)
