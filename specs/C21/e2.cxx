// C21 — isotropic moduli and stiffness tensors (E2: real templates at vsym::sym, proof over the reals).
// Reference formulas are the textbook definitions of linear elasticity, not TFEL's own J/K tensors.
#include "vsym/traits.hxx"
#include "TFEL/Math/stensor.hxx"
#include "TFEL/Math/st2tost2.hxx"
#include "TFEL/Material/IsotropicModuli.hxx"
#include "TFEL/Material/Lame.hxx"
#include "TFEL/Material/StiffnessTensor.hxx"
#include "vsym/driver.hxx"
#include "common/mandel.hxx"
using namespace tfel::math;
using namespace tfel::material;
using namespace spec;

template <class E> void admissible(E& e, const typename E::real& yg, const typename E::real& nu) {
  using T = typename E::real;
  e.require(e.lt(T(0), yg));
  e.require(e.lt(T(-1), nu));
  e.require(e.lt(nu, T(1) / T(2)));
}
template <class E> void c_conversions(E& e) {
  using T = typename E::real;
  const T yg = e.var("E"), nu = e.var("nu");
  admissible(e, yg, nu);
  // textbook definitions
  const T K = yg / (T(3) * (T(1) - T(2) * nu)), G = yg / (T(2) * (T(1) + nu)), L = yg * nu / ((T(1) + nu) * (T(1) - T(2) * nu));
  const YoungNuModuli<T> yn(yg, nu);
  const auto kg = yn.ToKG();
  const auto lm = yn.ToLambdaMu();
  e.ensure("ToKG:kappa=E/(3(1-2nu))", e.eq(kg.kappa, K));
  e.ensure("ToKG:mu=E/(2(1+nu))", e.eq(kg.mu, G));
  e.ensure("ToLambdaMu:lambda=E.nu/((1+nu)(1-2nu))", e.eq(lm.lambda, L));
  e.ensure("ToLambdaMu:mu", e.eq(lm.mu, G));
  e.ensure("computeLambda", e.eq(computeLambda<T>(yg, nu), L));
  e.ensure("computeMu", e.eq(computeMu<T>(yg, nu), G));
  e.ensure("K>0", e.lt(T(0), kg.kappa));
  e.ensure("G>0", e.lt(T(0), kg.mu));
  // round trips
  const auto a = kg.ToYoungNu();
  e.ensure("YN->KG->YN:E", e.eq(a.young, yg));
  e.ensure("YN->KG->YN:nu", e.eq(a.nu, nu));
  const auto b = lm.ToYoungNu();
  e.ensure("YN->LM->YN:E", e.eq(b.young, yg));
  e.ensure("YN->LM->YN:nu", e.eq(b.nu, nu));
  const auto c = kg.ToLambdaMu();
  e.ensure("YN->KG->LM=YN->LM:lambda", e.eq(c.lambda, lm.lambda));
  e.ensure("YN->KG->LM=YN->LM:mu", e.eq(c.mu, lm.mu));
  const auto d = lm.ToKG();
  e.ensure("YN->LM->KG=YN->KG:kappa", e.eq(d.kappa, kg.kappa));
  e.ensure("YN->LM->KG=YN->KG:mu", e.eq(d.mu, kg.mu));
  const auto i1 = yn.ToYoungNu();
  e.ensure("ToYoungNu identity", e.eq(i1.young, yg) && e.eq(i1.nu, nu));
  const auto i2 = kg.ToKG();
  e.ensure("ToKG identity", e.eq(i2.kappa, kg.kappa) && e.eq(i2.mu, kg.mu));
  const auto i3 = lm.ToLambdaMu();
  e.ensure("ToLambdaMu identity", e.eq(i3.lambda, lm.lambda) && e.eq(i3.mu, lm.mu));
}
// round trips starting from (K,G) and (lambda,mu) as the primary data
template <class E> void c_conversions_from_KG(E& e) {
  using T = typename E::real;
  const T K = e.var("K"), G = e.var("G");
  e.require(e.lt(T(0), K));
  e.require(e.lt(T(0), G));
  const KGModuli<T> kg(K, G);
  const auto a = kg.ToYoungNu().ToKG();
  e.ensure("KG->YN->KG:kappa", e.eq(a.kappa, K));
  e.ensure("KG->YN->KG:mu", e.eq(a.mu, G));
  const auto b = kg.ToLambdaMu().ToKG();
  e.ensure("KG->LM->KG:kappa", e.eq(b.kappa, K));
  e.ensure("KG->LM->KG:mu", e.eq(b.mu, G));
  const auto yn = kg.ToYoungNu();
  e.ensure("KG->YN admissible:E>0", e.lt(T(0), yn.young));
  e.ensure("KG->YN admissible:-1<nu<1/2", e.lt(T(-1), yn.nu) && e.lt(yn.nu, T(1) / T(2)));
  const T L = K - T(2) * G / T(3);
  const LambdaMuModuli<T> lm(L, G);
  const auto c = lm.ToYoungNu().ToLambdaMu();
  e.ensure("LM->YN->LM:lambda", e.eq(c.lambda, L));
  e.ensure("LM->YN->LM:mu", e.eq(c.mu, G));
  const auto d = lm.ToKG().ToLambdaMu();
  e.ensure("LM->KG->LM:lambda", e.eq(d.lambda, L));
  e.ensure("LM->KG->LM:mu", e.eq(d.mu, G));
}
template <class E> void c_isotropic_stiffness(E& e) {
  using T = typename E::real;
  const T yg = e.var("E"), nu = e.var("nu");
  admissible(e, yg, nu);
  const T G = yg / (T(2) * (T(1) + nu)), L = yg * nu / ((T(1) + nu) * (T(1) - T(2) * nu)), K = yg / (T(3) * (T(1) - T(2) * nu));
  const YoungNuModuli<T> yn(yg, nu);
  const st2tost2<3u, T> C = computeIsotropicStiffnessTensor<T>(yn);
  // Hooke's law in Mandel components: C_ij = lambda (i,j<3, i!=j), lambda+2mu (i=j<3), 2mu (i=j>=3), 0 otherwise
  for (unsigned short i = 0; i < 6; ++i) for (unsigned short j = 0; j < 6; ++j) {
    T ref = T(0);
    if (i < 3 && j < 3) ref = (i == j) ? L + T(2) * G : L;
    else if (i == j) ref = T(2) * G;
    e.ensure("C(" + std::to_string(i) + "," + std::to_string(j) + ")=Hooke", e.eq(C(i, j), ref));
    if (i < j) e.ensure("C symmetric(" + std::to_string(i) + "," + std::to_string(j) + ")", e.eq(C(i, j), C(j, i)));
  }
  // sigma = C:eps = lambda tr(eps) I + 2 mu eps for a symbolic strain
  const auto eps = sym_stensor<3u>(e, "eps");
  const stensor<3u, T> sig = C * eps;
  const auto me = M<3u, T>(e, eps);
  ensure_mat_eq(e, "C:eps=lambda.tr(eps).I+2mu.eps", M<3u, T>(e, sig), add(scale(L * trace3(me), id3<T>()), scale(T(2) * G, me)));
  // positive definiteness: eps:C:eps = K tr(eps)^2 + 2G dev:dev, K>0, G>0
  const auto dev = sub(me, scale(trace3(me) / T(3), id3<T>()));
  const T w = eps | sig;
  e.ensure("eps:C:eps=K.tr^2+2G.dev:dev", e.eq(w, K * trace3(me) * trace3(me) + T(2) * G * frob(dev, dev)));
  std::vector<decltype(e.tru())> nz;
  for (unsigned short i = 0; i < 6; ++i) nz.push_back(!e.eq(eps[i], T(0)));
  e.ensure("positive definite: eps!=0 => eps:C:eps>0", implies(any_of(nz), e.lt(T(0), w)));
  // recovery of the moduli
  const auto kg = computeKGModuli<T>(C);
  e.ensure("computeKGModuli(C):kappa", e.eq(kg.kappa, K));
  e.ensure("computeKGModuli(C):mu", e.eq(kg.mu, G));
  const auto km = computeKappaMu<T>(C);
  e.ensure("computeKappaMu(C)", e.eq(km.first, K) && e.eq(km.second, G));
}
template <class E> void c_is_isotropic(E& e) {
  using T = typename E::real;
  const T yg = e.var("E"), nu = e.var("nu"), tol = e.var("eps");
  admissible(e, yg, nu);
  e.require(e.lt(T(0), tol));
  const YoungNuModuli<T> yn(yg, nu);
  const st2tost2<3u, T> C = computeIsotropicStiffnessTensor<T>(yn);
  const bool r = isIsotropic<T>(C, tol);
  // on every feasible path the answer is `true` (the path on which the test fails must be infeasible)
  e.ensure("isIsotropic accepts an isotropic tensor", r ? e.tru() : e.eq(T(0), T(1)));
}
// ---- hypothesis-specific tensors -----------------------------------------------------------
template <class E> st2tost2<3u, typename E::real> ortho3D(E& e, typename E::real (&c)[9]) {
  using T = typename E::real;
  const char* n[9] = {"E1", "E2", "E3", "nu12", "nu23", "nu13", "G12", "G23", "G13"};
  for (int i = 0; i < 9; ++i) c[i] = e.var(n[i]);
  for (int i : {0, 1, 2, 6, 7, 8}) e.require(e.lt(T(0), c[i]));
  // thermodynamic admissibility: the 3x3 compliance block is positive definite (leading minors)
  const T S11 = T(1) / c[0], S22 = T(1) / c[1], S33 = T(1) / c[2], S12 = -c[3] / c[0], S13 = -c[5] / c[0], S23 = -c[4] / c[1];
  e.require(e.lt(T(0), S11 * S22 - S12 * S12));
  e.require(e.lt(T(0), S11 * S22 * S33 + T(2) * S23 * S13 * S12 - S11 * S23 * S23 - S22 * S13 * S13 - S33 * S12 * S12));
  st2tost2<3u, T> C;
  computeOrthotropicStiffnessTensor<ModellingHypothesis::TRIDIMENSIONAL, StiffnessTensorAlterationCharacteristic::UNALTERED>(C, c[0], c[1], c[2], c[3], c[4], c[5], c[6], c[7], c[8]);
  return C;
}
template <class E> void c_ortho_3D(E& e) {
  using T = typename E::real;
  T c[9];
  const auto C = ortho3D(e, c);
  // compliance in Mandel components (engineering constants): eps = S:sigma
  T S[6][6];
  for (auto& r : S) for (auto& x : r) x = T(0);
  S[0][0] = T(1) / c[0]; S[1][1] = T(1) / c[1]; S[2][2] = T(1) / c[2];
  S[0][1] = S[1][0] = -c[3] / c[0]; S[0][2] = S[2][0] = -c[5] / c[0]; S[1][2] = S[2][1] = -c[4] / c[1];
  S[3][3] = T(1) / (T(2) * c[6]); S[4][4] = T(1) / (T(2) * c[8]); S[5][5] = T(1) / (T(2) * c[7]);
  for (unsigned short i = 0; i < 6; ++i) for (unsigned short j = 0; j < 6; ++j) {
    T s = T(0);
    for (unsigned short k = 0; k < 6; ++k) s = s + C(i, k) * S[k][j];
    e.ensure("C.S=Id(" + std::to_string(i) + "," + std::to_string(j) + ")", e.eq(s, T(i == j ? 1 : 0)));
    if (i < j) e.ensure("C symmetric(" + std::to_string(i) + "," + std::to_string(j) + ")", e.eq(C(i, j), C(j, i)));
  }
}
// reduction of the 3D tensor: sub-block (UNALTERED, and ALTERED where the hypothesis imposes no stress component),
// static condensation of the zero-stress direction for plane stress (2D: zz, index 2) and axisymmetrical generalised plane stress (1D: zz, index 1)
template <ModellingHypothesis::Hypothesis H, StiffnessTensorAlterationCharacteristic A, class E> void c_ortho_reduced(E& e) {
  using T = typename E::real;
  constexpr unsigned short N = ModellingHypothesisToSpaceDimension<H>::value;
  constexpr unsigned short n = StensorDimeToSize<N>::value;
  T c[9];
  const auto C3 = ortho3D(e, c);
  st2tost2<N, T> C;
  computeOrthotropicStiffnessTensor<H, A>(C, c[0], c[1], c[2], c[3], c[4], c[5], c[6], c[7], c[8]);
  constexpr bool condense = (A == StiffnessTensorAlterationCharacteristic::ALTERED) &&
                            (H == ModellingHypothesis::PLANESTRESS || H == ModellingHypothesis::AXISYMMETRICALGENERALISEDPLANESTRESS);
  constexpr unsigned short z = (H == ModellingHypothesis::PLANESTRESS) ? 2 : 1;  // index of the stress-free direction
  for (unsigned short i = 0; i < n; ++i) for (unsigned short j = 0; j < n; ++j) {
    T ref = C3(i, j);
    if constexpr (condense) {
      if (i == z || j == z) ref = T(0);  // the stress-free direction carries no stiffness in the effective tensor
      else ref = C3(i, j) - C3(i, z) * C3(z, j) / C3(z, z);
    }
    e.ensure("C(" + std::to_string(i) + "," + std::to_string(j) + ")=" + (condense ? "condensed 3D" : "3D sub-block"), e.eq(C(i, j), ref));
  }
}
// isotropic hypothesis-specific tensors = reduction of computeIsotropicStiffnessTensor(YoungNuModuli)
template <ModellingHypothesis::Hypothesis H, StiffnessTensorAlterationCharacteristic A, class E> void c_iso_reduced(E& e) {
  using T = typename E::real;
  constexpr unsigned short N = ModellingHypothesisToSpaceDimension<H>::value;
  constexpr unsigned short n = StensorDimeToSize<N>::value;
  const T yg = e.var("E"), nu = e.var("nu");
  admissible(e, yg, nu);
  const st2tost2<3u, T> C3 = computeIsotropicStiffnessTensor<T>(YoungNuModuli<T>(yg, nu));
  st2tost2<N, T> C;
  computeIsotropicStiffnessTensor<H, A>(C, yg, nu);
  constexpr bool condense = (A == StiffnessTensorAlterationCharacteristic::ALTERED) &&
                            (H == ModellingHypothesis::PLANESTRESS || H == ModellingHypothesis::AXISYMMETRICALGENERALISEDPLANESTRESS);
  constexpr unsigned short z = (H == ModellingHypothesis::PLANESTRESS) ? 2 : 1;
  for (unsigned short i = 0; i < n; ++i) for (unsigned short j = 0; j < n; ++j) {
    T ref = C3(i, j);
    if constexpr (condense) {
      if (i == z || j == z) ref = T(0);
      else ref = C3(i, j) - C3(i, z) * C3(z, j) / C3(z, z);
    }
    e.ensure("C(" + std::to_string(i) + "," + std::to_string(j) + ")=" + (condense ? "condensed 3D" : "3D sub-block"), e.eq(C(i, j), ref));
  }
}
// ComputeAlteredStiffnessTensor<H>::exe: from the unaltered tensor of the hypothesis to the altered one: static condensation of the
// stress-free direction (zz, index 2) in plane stress, identity otherwise. D is any tensor without normal/shear coupling.
template <ModellingHypothesis::Hypothesis H, class E> void c_altered_from_unaltered(E& e) {
  using T = typename E::real;
  constexpr unsigned short N = ModellingHypothesisToSpaceDimension<H>::value;
  constexpr unsigned short n = StensorDimeToSize<N>::value;
  st2tost2<N, T> D;
  for (unsigned short i = 0; i < n; ++i) for (unsigned short j = 0; j < n; ++j) D(i, j) = e.var("D" + std::to_string(i) + std::to_string(j));
  if constexpr (H == ModellingHypothesis::PLANESTRESS) {
    e.require(!e.eq(D(2, 2), T(0)));
    for (unsigned short i = 0; i < 3; ++i) { e.require(e.eq(D(i, 3), T(0))); e.require(e.eq(D(3, i), T(0))); }
  }
  st2tost2<N, T> Da;
  ComputeAlteredStiffnessTensor<H>::exe(Da, D);
  for (unsigned short i = 0; i < n; ++i) for (unsigned short j = 0; j < n; ++j) {
    T ref = D(i, j);
    if constexpr (H == ModellingHypothesis::PLANESTRESS) {
      if (i == 2 || j == 2) ref = T(0);
      else ref = D(i, j) - D(i, 2) * D(2, j) / D(2, 2);
    }
    e.ensure("Da(" + std::to_string(i) + "," + std::to_string(j) + ")=" + (H == ModellingHypothesis::PLANESTRESS ? "condensed D" : "D"), e.eq(Da(i, j), ref));
  }
}
using MH = ModellingHypothesis;
constexpr auto UNA = StiffnessTensorAlterationCharacteristic::UNALTERED;
constexpr auto ALT = StiffnessTensorAlterationCharacteristic::ALTERED;
VSYM_CONTRACT("moduli/conversions", c_conversions)
VSYM_CONTRACT("moduli/conversions-from-KG-and-LambdaMu", c_conversions_from_KG)
VSYM_CONTRACT("isotropic/computeIsotropicStiffnessTensor", c_isotropic_stiffness)
VSYM_CONTRACT("isotropic/isIsotropic", c_is_isotropic)
VSYM_CONTRACT("orthotropic/TRIDIMENSIONAL", c_ortho_3D)
#define RED(NAME, H)                                                                          \
  VSYM_CONTRACT("orthotropic/" NAME "/UNALTERED", (c_ortho_reduced<MH::H, UNA>))              \
  VSYM_CONTRACT("orthotropic/" NAME "/ALTERED", (c_ortho_reduced<MH::H, ALT>))                \
  VSYM_CONTRACT("isotropic/" NAME "/UNALTERED", (c_iso_reduced<MH::H, UNA>))                  \
  VSYM_CONTRACT("isotropic/" NAME "/ALTERED", (c_iso_reduced<MH::H, ALT>))
VSYM_CONTRACT("ComputeAlteredStiffnessTensor/PLANESTRESS", (c_altered_from_unaltered<MH::PLANESTRESS>))
VSYM_CONTRACT("ComputeAlteredStiffnessTensor/PLANESTRAIN", (c_altered_from_unaltered<MH::PLANESTRAIN>))
VSYM_CONTRACT("ComputeAlteredStiffnessTensor/TRIDIMENSIONAL", (c_altered_from_unaltered<MH::TRIDIMENSIONAL>))
VSYM_CONTRACT("ComputeAlteredStiffnessTensor/AXISYMMETRICALGENERALISEDPLANESTRAIN", (c_altered_from_unaltered<MH::AXISYMMETRICALGENERALISEDPLANESTRAIN>))
RED("AXISYMMETRICALGENERALISEDPLANESTRAIN", AXISYMMETRICALGENERALISEDPLANESTRAIN)
RED("AXISYMMETRICALGENERALISEDPLANESTRESS", AXISYMMETRICALGENERALISEDPLANESTRESS)
RED("AXISYMMETRICAL", AXISYMMETRICAL)
RED("PLANESTRESS", PLANESTRESS)
RED("PLANESTRAIN", PLANESTRAIN)
RED("GENERALISEDPLANESTRAIN", GENERALISEDPLANESTRAIN)
RED("TRIDIMENSIONAL", TRIDIMENSIONAL)
int main(int argc, char** argv) { return vsym::driver_main(argc, argv); }
