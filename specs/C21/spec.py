"""C21 — isotropic moduli and stiffness tensors (E2, proof over the reals)."""
from engines.symvc.discharge import run_spec


def run(ctx):
    ctx.assume("admissible constants: E>0, -1<nu<1/2; orthotropic: moduli > 0 and positive definite compliance (leading minors)",
               "reference formulas are the textbook definitions (Hooke's law in Mandel components, compliance from engineering constants)",
               "DEFAULT orthotropic axes convention here; the PIPE/PLATE permutations are C28's subject",
               "strict positive definiteness is proved directly as an NRA validity (eps != 0 => eps:C:eps > 0) and through the K tr^2 + 2G dev:dev identity")
    run_spec(ctx, expect_min=300)
