"""C21 — isotropic moduli and stiffness tensors (E2, proof over the reals)."""
from engines.symvc.discharge import run_spec


def run(ctx):
    ctx.assume("admissible constants: E>0, -1<nu<1/2; orthotropic: moduli > 0 and positive definite compliance (leading minors)",
               "reference formulas are the textbook definitions (Hooke's law in Mandel components, compliance from engineering constants)",
               "DEFAULT and PIPE orthotropic axes conventions (the PIPE contracts are shared with C28: specs/C28/e2.cxx, prefix stiffness/)",
               "strict positive definiteness is proved directly as an NRA validity (eps != 0 => eps:C:eps > 0) and through the K tr^2 + 2G dev:dev identity")
    run_spec(ctx, expect_min=300)
    # PIPE orthotropic axes convention: the stiffness contracts of specs/C28/e2.cxx (the tensors of each hypothesis are the documented
    # axis permutation of the 3D tensor) are part of this property too
    run_spec(ctx, src="../C28/e2.cxx", exe="e2_pipe", prefix_filter="stiffness/", expect_min=300)
