// C15 — geometric 1D discretisation (E2, bounded in n): n+1 strictly monotone nodes from xb to xe, element lengths in geometric progression.
#include "vsym/traits.hxx"
#include <vector>
#include "TFEL/Math/Discretization1D.hxx"
#include "vsym/driver.hxx"
using namespace tfel::math;

template <unsigned n, class E> void c_geometric(E& e) {
  using T = typename E::real;
  const T xb = e.var("xb"), xe = e.var("xe"), db = e.var("db"), de = e.var("de");
  // a proper interval and proper densities (well away from the 100*numeric_limits::min() guards of the function)
  const T tiny = T(1) / T(1000000);
  e.require(e.le(tiny, xe - xb));
  e.require(e.le(tiny, db) && e.le(tiny, de));
  std::vector<T> v;
  geometricDiscretization(v, xb, xe, db, de, n);
  const bool size_ok = v.size() == n + 1;
  e.ensure("n+1 nodes", size_ok ? e.tru() : e.eq(T(0), T(1)));
  if (!size_ok) return;
  e.ensure("first node is xb", e.eq(v[0], xb));
  e.ensure("last node is xe", e.eq(v[n], xe));
  std::vector<T> d(n);
  for (unsigned i = 0; i < n; ++i) d[i] = v[i + 1] - v[i];
  for (unsigned i = 0; i < n; ++i) e.ensure("strictly increasing: element " + std::to_string(i) + " has positive length", e.lt(T(0), d[i]));
  // constant ratio between consecutive element lengths: d_i^2 = d_(i-1) d_(i+1)
  for (unsigned i = 1; i + 1 < n; ++i) {
    const bool last = (i + 2 == n);
    if (!last) {
      e.ensure("geometric progression at element " + std::to_string(i), e.eq(d[i] * d[i], d[i - 1] * d[i + 1]));
    } else {
      // the last node is overwritten by xe: exact on the geometric-sum branch; on the near-uniform branch (ratio within 1e-5 of 1, where
      // the function uses element size l/n) the last element absorbs the difference
      const T r = d[1] / d[0];
      const T c = T(1) / T(100000);
      e.ensure("geometric progression up to the last element (ratio not within 1e-5 of 1)",
               implies(e.lt(c, r - T(1)) || e.lt(c, T(1) - r), e.eq(d[i] * d[i], d[i - 1] * d[i + 1])));
    }
  }
}
#define G(N) template <class E> void g_##N(E& e) { c_geometric<N>(e); } VSYM_CONTRACT_P("geometricDiscretization/n=" #N, g_##N, 100)
G(1) G(2) G(3) G(4)
#ifdef VERIF_THOROUGH
G(5) G(6)
#endif
int main(int argc, char** argv) { return vsym::driver_main(argc, argv); }
