"""C15 — geometric 1D discretisation (E2, bounded in n)."""
from engines.symvc.discharge import run_spec


def run(ctx):
    ctx.assume("bounded in the number of elements: n = 1..4 (thorough: also 5, 6), each n complete over all real intervals with xe - xb >= 1e-6 and densities >= 1e-6 (away from the function's 100*numeric_limits::min() guards); pow(r, n) with concrete n is the n-fold product; n up to 1e5 is NOT covered",
               "increasing intervals only (xb < xe); the exceptions on null length / null density / n <= 0 are not under contract",
               "on the near-uniform branch (|r-1| <= 1e-5) the last element is not in progression by design: the clause is stated for ratios outside that band")
    srcs = " ".join("%s/src/%s" % (ctx.repo, f) for f in ("Math/Discretization1D.cxx", "Math/MathException.cxx", "Exception/TFELException.cxx"))
    run_spec(ctx, flags=("-DVERIF_THOROUGH " if ctx.thorough else "") + srcs, expect_min=10, per_timeout=600 if ctx.thorough else 90)
