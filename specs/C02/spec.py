"""C02 — tensor and fourth-order tensor algebra = index notation (E2, proof over the reals)."""
from engines.symvc.discharge import run_spec


def run(ctx):
    ctx.assume("fourth-order objects are identified through their action on symbolic second-order tensors (linear maps equal on every argument are equal); the Mandel basis is orthonormal, so (A:s)_i = sum_j A_ij s_j on stored components is the index-notation contraction",
               "change of basis of st2tost2 is checked at three concrete exact rotations (symbolic orthogonal matrices need the orthogonality relations inside the solver: not attempted); the tensor/stensor change of basis is fully symbolic in the matrix",
               "NOT covered: polar decomposition (eigen solver inside), st2tost2/t2tot2 inversion (TinyMatrixInvert on 6x6/9x9: C07's subject at sizes out of reach), t2tost2/st2tot2 mixed products and convert(), 3D st2tost2 push_forward in the quick tier")
    run_spec(ctx, flags="-DVERIF_THOROUGH" if ctx.thorough else "", expect_min=400, per_timeout=600 if ctx.thorough else 90)
