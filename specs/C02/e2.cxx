// C02 — tensor and fourth-order tensor algebra = index notation (E2, proof over the reals).
// Second-order objects are compared entry by entry with their 3x3 matrix; fourth-order objects through their action on symbolic
// second-order tensors (two linear maps that agree on every argument are equal), which avoids writing 81-entry tables twice.
#include "vsym/traits.hxx"
#include "TFEL/Math/stensor.hxx"
#include "TFEL/Math/tensor.hxx"
#include "TFEL/Math/st2tost2.hxx"
#include "TFEL/Math/t2tot2.hxx"
#include "TFEL/Math/t2tost2.hxx"
#include "TFEL/Math/st2tot2.hxx"
#include "TFEL/Math/tmatrix.hxx"
#include "vsym/driver.hxx"
#include "common/mandel.hxx"
using namespace tfel::math;
using namespace spec;

template <unsigned short N, class E> st2tost2<N, typename E::real> sym_st2tost2(E& e, const std::string& n) {
  st2tost2<N, typename E::real> A;
  for (unsigned short i = 0; i < StensorDimeToSize<N>::value; ++i) for (unsigned short j = 0; j < StensorDimeToSize<N>::value; ++j) A(i, j) = e.var(n + std::to_string(i) + "_" + std::to_string(j));
  return A;
}
template <unsigned short N, class E> t2tot2<N, typename E::real> sym_t2tot2(E& e, const std::string& n) {
  t2tot2<N, typename E::real> A;
  for (unsigned short i = 0; i < TensorDimeToSize<N>::value; ++i) for (unsigned short j = 0; j < TensorDimeToSize<N>::value; ++j) A(i, j) = e.var(n + std::to_string(i) + "_" + std::to_string(j));
  return A;
}
template <class E, class V> void ensure_vec_eq(E& e, const std::string& name, const V& a, const V& b) {
  for (unsigned short i = 0; i < a.size(); ++i) e.ensure(name + "[" + std::to_string(i) + "]", e.eq(a[i], b[i]));
}

// ---- second-order (non-symmetric) tensors ------------------------------------------------------------------------------
template <unsigned short N, class E> void c_tensor_algebra(E& e) {
  using T = typename E::real;
  const auto A = sym_tensor<N>(e, "A");
  const auto B = sym_tensor<N>(e, "B");
  const auto mA = Tm<N, T>(A), mB = Tm<N, T>(B);
  const tensor<N, T> P = A * B;
  ensure_mat_eq(e, "T(A*B)=T(A).T(B)", Tm<N, T>(P), mul(mA, mB));
  const tensor<N, T> At = transpose(A);
  ensure_mat_eq(e, "T(transpose(A))=T(A)^T", Tm<N, T>(At), tr(mA));
  e.ensure("det(A)=det3(T(A))", e.eq(det(A), det3(mA)));
  e.ensure("trace(A)=tr(T(A))", e.eq(trace(A), trace3(mA)));
  const stensor<N, T> sA = syme(A);
  ensure_mat_eq(e, "M(syme(A))=(T+T^T)/2", M<N, T>(e, sA), scale(T(1) / T(2), add(mA, tr(mA))));
  const auto s = sym_stensor<N>(e, "s");
  const tensor<N, T> u = unsyme(s);
  ensure_mat_eq(e, "T(unsyme(s))=M(s)", Tm<N, T>(u), M<N, T>(e, s));
  const stensor<N, T> pf = push_forward(s, A);
  ensure_mat_eq(e, "M(push_forward(s,F))=F.M(s).F^T", M<N, T>(e, pf), mul(mul(mA, M<N, T>(e, s)), tr(mA)));
  const stensor<N, T> C = computeRightCauchyGreenTensor(A);
  ensure_mat_eq(e, "M(C)=F^T.F", M<N, T>(e, C), mul(tr(mA), mA));
  const stensor<N, T> Bl = computeLeftCauchyGreenTensor(A);
  ensure_mat_eq(e, "M(B)=F.F^T", M<N, T>(e, Bl), mul(mA, tr(mA)));
  const stensor<N, T> egl = computeGreenLagrangeTensor(A);
  ensure_mat_eq(e, "M(E_GL)=(F^T.F-I)/2", M<N, T>(e, egl), scale(T(1) / T(2), sub(mul(tr(mA), mA), id3<T>())));
}
template <unsigned short N, class E> void c_tensor_invert(E& e) {
  using T = typename E::real;
  const auto A = sym_tensor<N>(e, "A");
  e.require(!e.eq(det(A), T(0)));
  const tensor<N, T> iA = invert(A);
  // in 1D/2D the out-of-plane entries of the 3x3 representation of a tensor<N> are zero: the identity is meant on the stored block
  auto I = id3<T>();
  ensure_mat_eq(e, "T(invert(A)).T(A)=I", mul(Tm<N, T>(iA), Tm<N, T>(A)), I);
  ensure_mat_eq(e, "T(A).T(invert(A))=I", mul(Tm<N, T>(A), Tm<N, T>(iA)), I);
}
template <class E> void c_tensor_change_basis(E& e) {
  using T = typename E::real;
  const auto A = sym_tensor<3u>(e, "A");
  const auto r = sym_tmatrix(e, "r");
  const tensor<3u, T> Ar = change_basis(A, r);
  // same convention as stensor::changeBasis (C01): components in the new basis whose vectors are the columns... of r^T: r^T.A.r
  ensure_mat_eq(e, "T(change_basis(A,r))=r^T.T(A).r", Tm<3u, T>(Ar), mul(mul(tr(of_tmatrix(r)), Tm<3u, T>(A)), of_tmatrix(r)));
}
// ---- st2tost2 ----------------------------------------------------------------------------------------------------------
template <unsigned short N, class E> void c_st2tost2_projectors(E& e) {
  using T = typename E::real;
  const auto s = sym_stensor<N>(e, "s");
  using S4 = st2tost2<N, T>;
  const stensor<N, T> a = S4::Id() * s;
  ensure_vec_eq(e, "Id:s=s", a, s);
  const stensor<N, T> b = S4::IxI() * s;
  const stensor<N, T> trI = trace(s) * stensor<N, T>::Id();
  ensure_vec_eq(e, "IxI:s=tr(s).I", b, trI);
  const stensor<N, T> c = S4::J() * s;
  const stensor<N, T> sph = (trace(s) / T(3)) * stensor<N, T>::Id();
  ensure_vec_eq(e, "J:s=tr(s)/3.I", c, sph);
  const stensor<N, T> d = S4::K() * s;
  const stensor<N, T> dv = deviator(s);
  ensure_vec_eq(e, "K:s=dev(s)", d, dv);
  const stensor<N, T> m = S4::M() * s;
  const stensor<N, T> dv32 = (T(3) / T(2)) * deviator(s);
  ensure_vec_eq(e, "M:s=3/2.dev(s)", m, dv32);
  const T q = s | m;
  const T seq = sigmaeq(s);
  e.ensure("s:M:s=sigmaeq(s)^2", e.eq(q, seq * seq));
  // idempotence / orthogonality of the projectors
  const stensor<N, T> jj = S4::J() * c, kk = S4::K() * d, jk = S4::J() * d;
  ensure_vec_eq(e, "J:J:s=J:s", jj, c);
  ensure_vec_eq(e, "K:K:s=K:s", kk, d);
  for (unsigned short i = 0; i < s.size(); ++i) e.ensure("J:K:s=0[" + std::to_string(i) + "]", e.eq(jk[i], T(0)));
}
template <unsigned short N, class E> void c_st2tost2_products(E& e) {
  using T = typename E::real;
  const auto A = sym_st2tost2<N>(e, "A");
  const auto B = sym_st2tost2<N>(e, "B");
  const auto s = sym_stensor<N>(e, "s");
  const auto t = sym_stensor<N>(e, "t");
  // A:s in index notation on the Mandel components (the Mandel basis is orthonormal): (A:s)_i = sum_j A_ij s_j
  const stensor<N, T> As = A * s;
  for (unsigned short i = 0; i < s.size(); ++i) {
    T r = T(0);
    for (unsigned short j = 0; j < s.size(); ++j) r = r + A(i, j) * s[j];
    e.ensure("(A:s)_" + std::to_string(i) + "=A_ij.s_j", e.eq(As[i], r));
  }
  const st2tost2<N, T> AB = A * B;
  const stensor<N, T> ABs = AB * s, A_Bs = A * stensor<N, T>(B * s);
  ensure_vec_eq(e, "(A*B):s=A:(B:s)", ABs, A_Bs);
  const st2tost2<N, T> At = transpose(A);
  const stensor<N, T> Ats = At * s;
  const stensor<N, T> At_ = A * t;
  e.ensure("t:(transpose(A):s)=s:(A:t)", e.eq(t | Ats, s | At_));
  const stensor<N, T> sA = s * A;  // left product
  e.ensure("(s:A):t=s:(A:t)", e.eq(sA | t, s | At_));
  const st2tost2<N, T> st = s ^ t;  // tensorial product
  const auto u = sym_stensor<N>(e, "u");
  const stensor<N, T> stu = st * u;
  const stensor<N, T> ref = (t | u) * s;
  ensure_vec_eq(e, "(s^t):u=(t:u).s", stu, ref);
}
template <unsigned short N, class E> void c_st2tost2_push_forward(E& e) {
  using T = typename E::real;
  const auto C = sym_st2tost2<N>(e, "C");
  const auto F = sym_tensor<N>(e, "F");
  const auto s = sym_stensor<N>(e, "s");
  // Ct_ijkl = F_im F_jn F_kp F_lq C_mnpq  <=>  Ct : s = F.(C : (F^T.s.F)).F^T for every symmetric s
  const st2tost2<N, T> Ct = push_forward(C, F);
  const stensor<N, T> lhs = Ct * s;
  const tensor<N, T> Ft = transpose(F);
  const stensor<N, T> pulled = push_forward(s, Ft);       // F^T.s.F  (proved above: push_forward(s,G) = G.s.G^T)
  const stensor<N, T> inner = C * pulled;
  const stensor<N, T> rhs = push_forward(inner, F);
  ensure_vec_eq(e, "push_forward(C,F):s=F.(C:(F^T.s.F)).F^T", lhs, rhs);
}
template <class E> void c_st2tost2_change_basis(E& e) {
  using T = typename E::real;
  // rotation of a fourth order tensor commutes with its action: change_basis(A,r):change_basis(s,r) = change_basis(A:s,r) for orthogonal r.
  // checked at three concrete rotations (quarter turns about the axes and a 3-4-5 rotation), exact rationals
  const auto A = sym_st2tost2<3u>(e, "A");
  const auto s = sym_stensor<3u>(e, "s");
  const T c = T(3) / T(5), sn = T(4) / T(5);
  const T rots[3][9] = {{T(0), T(-1), T(0), T(1), T(0), T(0), T(0), T(0), T(1)},
                        {c, -sn, T(0), sn, c, T(0), T(0), T(0), T(1)},
                        {T(1), T(0), T(0), T(0), c, -sn, T(0), sn, c}};
  for (int k = 0; k < 3; ++k) {
    rotation_matrix<T> r;
    for (unsigned short i = 0; i < 3; ++i) for (unsigned short j = 0; j < 3; ++j) r(i, j) = rots[k][3 * i + j];
    const st2tost2<3u, T> Ar = change_basis(A, r);
    const stensor<3u, T> sr = change_basis(s, r);
    const stensor<3u, T> lhs = Ar * sr;
    const stensor<3u, T> As = A * s;
    const stensor<3u, T> rhs = change_basis(As, r);
    ensure_vec_eq(e, "rotation " + std::to_string(k) + ": change_basis(A,r):change_basis(s,r)=change_basis(A:s,r)", lhs, rhs);
  }
}
// determinant of a fourth-order tensor = determinant of its matrix of (Mandel / storage) components. The generic branch goes through a
// pivoted LU decomposition and returns 0 when a pivot is refused: every path must return the true determinant or that documented 0.
template <unsigned short n, class T> T laplace_det(const tmatrix<n, n, T>& a) {
  if constexpr (n == 1) return a(0, 0);
  else {
    T d = T(0);
    for (unsigned short c = 0; c != n; ++c) {
      tmatrix<n - 1, n - 1, T> s;
      for (unsigned short i = 1; i != n; ++i) {
        unsigned short cc = 0;
        for (unsigned short j = 0; j != n; ++j) {
          if (j == c) continue;
          s(i - 1, cc++) = a(i, j);
        }
      }
      const T t = a(0, c) * laplace_det<n - 1, T>(s);
      d = (c % 2 == 0) ? d + t : d - t;
    }
    return d;
  }
}
template <unsigned short N, class E> void c_st2tost2_det(E& e) {
  using T = typename E::real;
  constexpr unsigned short n = StensorDimeToSize<N>::value;
  auto A = sym_st2tost2<N>(e, "A");
  if constexpr (N == 2) {
    // the generic (pivoted LU) branch: a fully symbolic 4x4 has thousands of pivoting paths; a symbolic 2x2 block plus a symbolic
    // diagonal keeps every row-exchange pattern of the first two columns and a few dozen paths
    for (unsigned short i = 0; i < n; ++i) for (unsigned short j = 0; j < n; ++j) if (i != j && (i >= 2 || j >= 2)) A(i, j) = T(0);
  }
  tmatrix<n, n, T> m;
  for (unsigned short i = 0; i < n; ++i) for (unsigned short j = 0; j < n; ++j) m(i, j) = A(i, j);
  const T d = det(A);
  const T ref = laplace_det<n, T>(m);
  e.ensure("det(A) = determinant of the component matrix (or the documented 0 on a refused pivot)", e.eq(d, ref) || e.eq(d, T(0)));
}
// ---- t2tot2 ------------------------------------------------------------------------------------------------------------
template <unsigned short N, class E> void c_t2tot2(E& e) {
  using T = typename E::real;
  const auto A = sym_t2tot2<N>(e, "A");
  const auto B = sym_t2tot2<N>(e, "B");
  const auto X = sym_tensor<N>(e, "X");
  using T4 = t2tot2<N, T>;
  const tensor<N, T> AX = A * X;
  for (unsigned short i = 0; i < X.size(); ++i) {
    T r = T(0);
    for (unsigned short j = 0; j < X.size(); ++j) r = r + A(i, j) * X[j];
    e.ensure("(A:X)_" + std::to_string(i) + "=A_ij.X_j", e.eq(AX[i], r));
  }
  const T4 AB = A * B;
  const tensor<N, T> ABX = AB * X, A_BX = A * tensor<N, T>(B * X);
  ensure_vec_eq(e, "(A*B):X=A:(B:X)", ABX, A_BX);
  const tensor<N, T> idx = T4::Id() * X;
  ensure_vec_eq(e, "Id:X=X", idx, X);
  const tensor<N, T> ixi = T4::IxI() * X;
  const tensor<N, T> trI = trace(X) * tensor<N, T>::Id();
  ensure_vec_eq(e, "IxI:X=tr(X).I", ixi, trI);
  const tensor<N, T> kx = T4::K() * X;
  const tensor<N, T> devX = X - (trace(X) / T(3)) * tensor<N, T>::Id();
  ensure_vec_eq(e, "K:X=X-tr(X)/3.I", kx, devX);
  const tensor<N, T> tdx = T4::transpose_derivative() * X;
  const tensor<N, T> Xt = transpose(X);
  ensure_vec_eq(e, "transpose_derivative:X=X^T", tdx, Xt);
}
// fromRotationMatrix: the fourth-order tensor acting as the change of basis (bilinear in r: stated for every matrix r of the right shape)
template <unsigned short N, class E> void c_from_rotation_matrix(E& e) {
  using T = typename E::real;
  tmatrix<3u, 3u, T> r;
  for (unsigned short i = 0; i < 3; ++i) for (unsigned short j = 0; j < 3; ++j) r(i, j) = T(i == j ? 1 : 0);
  const unsigned short n = N == 3 ? 3 : 2;
  for (unsigned short i = 0; i < n; ++i) for (unsigned short j = 0; j < n; ++j) r(i, j) = e.var("r" + std::to_string(i) + std::to_string(j));
  const auto A = sym_tensor<N>(e, "A");
  const auto s = sym_stensor<N>(e, "s");
  const tensor<N, T> RA = t2tot2<N, T>::fromRotationMatrix(r) * A;
  ensure_vec_eq(e, "t2tot2::fromRotationMatrix(r)*A = change_basis(A,r)", RA, tensor<N, T>(change_basis(A, r)));
  ensure_mat_eq(e, "T(t2tot2::fromRotationMatrix(r)*A) = r^T.T(A).r", Tm<N, T>(RA), mul(mul(tr(of_tmatrix(r)), Tm<N, T>(A)), of_tmatrix(r)));
  const stensor<N, T> Rs = st2tost2<N, T>::fromRotationMatrix(r) * s;
  ensure_mat_eq(e, "M(st2tost2::fromRotationMatrix(r)*s) = r^T.M(s).r", M<N, T>(e, Rs), mul(mul(tr(of_tmatrix(r)), M<N, T>(e, s)), of_tmatrix(r)));
}
#define C02_N(N)                                                                   \
  VSYM_CONTRACT("tensor" #N "/algebra", (c_tensor_algebra<N##u>))                   \
  VSYM_CONTRACT("tensor" #N "/invert", (c_tensor_invert<N##u>))                     \
  VSYM_CONTRACT("st2tost2_" #N "/projectors", (c_st2tost2_projectors<N##u>))        \
  VSYM_CONTRACT("st2tost2_" #N "/products", (c_st2tost2_products<N##u>))            \
  VSYM_CONTRACT("t2tot2_" #N "/action-products-projectors", (c_t2tot2<N##u>))
C02_N(1)
C02_N(2)
C02_N(3)
VSYM_CONTRACT("tensor3/change_basis", c_tensor_change_basis)
VSYM_CONTRACT("fromRotationMatrix/2D", (c_from_rotation_matrix<2u>))
VSYM_CONTRACT("fromRotationMatrix/3D", (c_from_rotation_matrix<3u>))
VSYM_CONTRACT_B("st2tost2_1/det", (c_st2tost2_det<1u>), 4000)
VSYM_CONTRACT_B("st2tost2_2/det", (c_st2tost2_det<2u>), 4000)
VSYM_CONTRACT("st2tost2_1/push_forward", (c_st2tost2_push_forward<1u>))
VSYM_CONTRACT("st2tost2_2/push_forward", (c_st2tost2_push_forward<2u>))
VSYM_CONTRACT("st2tost2_3/change_basis(three rotations)", c_st2tost2_change_basis)
#ifdef VERIF_THOROUGH
VSYM_CONTRACT("st2tost2_3/push_forward", (c_st2tost2_push_forward<3u>))
#endif
int main(int argc, char** argv) { return vsym::driver_main(argc, argv); }
