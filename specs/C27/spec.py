"""C27 — out-of-bounds policies (E1, loop-free => complete over all doubles, NaN included).

The C text of every function is extracted from include/TFEL/Material/BoundsCheck.hxx; the
contract text is generated here per family (lower / upper / two-sided) from the property
statement: out := (v < l) or (v > u) on doubles; bounds inclusive; NaN is never 'out'."""
import os

from engines.cbmcc.run import Job, run_jobs
from engines.cbmcc import extract as X

H = "include/TFEL/Material/BoundsCheck.hxx"
PRE = r'''#include "prelude.h"
typedef double T;
//@BODY policy_enum
/* ghost state: exception in flight, number of warnings displayed, component reported by the last throw / first warning */
int g_threw; unsigned g_warned; int g_reported; int g_kind;
#define base_type_cast(x) (x)
#define s(i) (p_s[(i)])
enum { K_LOWER = 1, K_UPPER = 2, K_BOTH = 3 };
/* [[noreturn]] throw*: the exception is modelled by the ghost flag; the extraction rule ends the path after the call */
static void throwOutOfLowerBoundsException(int name) { g_threw = 1; g_reported = name; g_kind = K_LOWER; }
static void throwOutOfUpperBoundsException(int name) { g_threw = 1; g_reported = name; g_kind = K_UPPER; }
static void throwOutOfBoundsException(int name) { g_threw = 1; g_reported = name; g_kind = K_BOTH; }
static void displayOutOfLowerBoundsWarning(int name) { if (g_warned < 1000u) g_warned++; }
static void displayOutOfUpperBoundsWarning(int name) { if (g_warned < 1000u) g_warned++; }
static void displayOutOfBoundsWarning(int name) { if (g_warned < 1000u) g_warned++; }
#define POLICY_OK(p) ((p) == Strict || (p) == Warning || (p) == None)
'''
FAM = {
    "lowerBoundCheck": dict(params="const T lBound", args="lBound", out=lambda v: "((%s) < lBound)" % v, thrower="throwOutOfLowerBoundsException", n_str=2),
    "upperBoundCheck": dict(params="const T uBound", args="uBound", out=lambda v: "((%s) > uBound)" % v, thrower="throwOutOfUpperBoundsException", n_str=2),
    "lowerAndUpperBoundsChecks": dict(params="const T lBound, const T uBound", args="lBound, uBound",
                                      out=lambda v: "(((%s) < lBound) || ((%s) > uBound))" % (v, v), thrower="throwOutOfBoundsException", n_str=3),
}


def scalar_contract(fam, exact=True):
    out = FAM[fam]["out"]("value")
    warn = "g_warned == __CPROVER_old(g_warned) + (%s ? 1u : 0u)" % out if exact else "(g_warned > __CPROVER_old(g_warned)) == (%s ? 1 : 0)" % out
    return "\n".join([
        "__CPROVER_requires(g_threw == 0 && g_warned < %s && POLICY_OK(p))" % ("100u" if exact else "50u"),
        "__CPROVER_ensures(p == Strict ==> ((g_threw != 0) == (%s ? 1 : 0) && g_warned == __CPROVER_old(g_warned))) /*@ strict-throws-iff-out-and-never-warns */" % out,
        "__CPROVER_ensures(p == Warning ==> (g_threw == 0 && %s)) /*@ warning-never-throws-and-warns-iff-out */" % warn,
        "__CPROVER_ensures(p == None ==> (g_threw == 0 && g_warned == __CPROVER_old(g_warned))) /*@ none-neither-throws-nor-warns */",
        "__CPROVER_ensures(g_threw != 0 ==> g_reported == name) /*@ thrown-exception-names-this-variable */",
        "__CPROVER_assigns(g_threw, g_warned, g_reported, g_kind)", ""])


def tensor_contract(fam, n):
    o = [FAM[fam]["out"]("s(%d)" % i) for i in range(n)]
    any_ = "(" + " || ".join(o) + ")"
    cnt = " + ".join("(%s ? 1u : 0u)" % x for x in o)
    first = "%d" % (n - 1)
    for i in range(n - 2, -1, -1):
        first = "(%s ? %d : %s)" % (o[i], i, first)
    return "\n".join([
        "__CPROVER_requires(__CPROVER_is_fresh(p_s, %d * sizeof(T)) && g_threw == 0 && g_warned < 50u && POLICY_OK(p))" % n,
        "__CPROVER_ensures(p == Strict ==> ((g_threw != 0) == (%s ? 1 : 0) && g_warned == __CPROVER_old(g_warned))) /*@ strict-throws-iff-some-component-out */" % any_,
        "__CPROVER_ensures((p == Strict && g_threw != 0) ==> g_reported == %s) /*@ strict-reports-first-out-component */" % first,
        "__CPROVER_ensures(p == Warning ==> (g_threw == 0 && g_warned == __CPROVER_old(g_warned) + %s)) /*@ warning-never-throws-and-warns-once-per-out-component */" % cnt,
        "__CPROVER_ensures(p == None ==> (g_threw == 0 && g_warned == __CPROVER_old(g_warned))) /*@ none-neither-throws-nor-warns */",
        "__CPROVER_assigns(g_threw, g_warned, g_reported, g_kind)", ""])


def scalar_rules(fam):
    return [
        {"name": "drop message-only statements (convert_to_string)", "re": r"const auto \w+_as_string = convert_to_string\(\w+\);", "sub": "", "min": FAM[fam]["n_str"], "max": FAM[fam]["n_str"]},
        {"name": "[[noreturn]] throw: raise ghost flag and end the path", "re": r"(throwOutOf\w*Exception)\(name,[^;]*\);", "sub": r"{ \1(name); return; }", "min": 1, "max": 1},
        {"name": "warning: drop message arguments", "re": r"(displayOutOf\w*Warning)\(name,[^;]*\);", "sub": r"\1(name);", "min": 1, "max": 1},
    ]


def tensor_rules(n):
    return [
        {"name": "component call: name + \"(i)\" -> i ; exception propagates", "re": r"BoundsCheckBase::(\w+)\(name \+ \"\((\d)\)\",([^;]*)\);",
         "sub": r"BoundsCheckBase_\1(\2,\3); if (g_threw) return;", "min": n, "max": n},
        {"name": "quantity getValue()", "re": r"\.getValue\(\)", "sub": ""},
    ]


def build(ctx):
    """Generate the single template (contracts + body markers) and the job list."""
    tpl = [PRE]
    bodies = [dict(name="policy_enum", file="include/TFEL/Material/OutOfBoundsPolicy.hxx", pattern=r"enum OutOfBoundsPolicy \{[^}]*\};", what="match",
                   rules=[{"name": "anonymous C enum", "re": r"enum OutOfBoundsPolicy", "sub": "enum", "min": 1}])]
    jobs = []
    harness = []
    # scalar functions of BoundsCheckBase: generic (callee name used by the tensor overloads) and quantity overloads
    for fam, d in FAM.items():
        for kind, pat in (("", r"static inline void %s\(\s*const std::string_view name,\s*const T value," % fam),
                          ("_qt", r"static inline void %s\(\s*const std::string_view name,\s*const QuantityType&? value," % fam)):
            fn = "BoundsCheckBase_%s%s" % (fam, kind)
            tpl.append("/* BoundsCheckBase::%s%s */\nvoid %s(int name, const T value, %s, const int p)\n%s{ VACUITY_REACH;\n//@BODY %s\n}\n"
                       % (fam, " (quantity overload)" if kind else "", fn, d["params"], scalar_contract(fam), fn))
            bodies.append(dict(name=fn, file=H, pattern=pat, rules=scalar_rules(fam)))
            harness.append("void h_%s(void) { int in_name; T in_value, in_lBound, in_uBound; int in_p; %s(in_name, in_value, %s, in_p); }" % (fn, fn, ", ".join("in_" + a.strip() for a in d["args"].split(","))))
            jobs.append(Job(fn, None, enforce=fn, min_obligations=4,
                            expect_labels=["strict-throws-iff-out-and-never-warns", "warning-never-throws-and-warns-iff-out", "none-neither-throws-nor-warns"]))
    # BoundsCheck<2u> scalar quantity two-sided variant (lower then upper check)
    fn = "BoundsCheck2_lowerAndUpperBoundsChecks_qt_scalar"
    tpl.append("/* BoundsCheck<2u>::lowerAndUpperBoundsChecks(name, QuantityType value, lBound, uBound, p) */\nvoid %s(int name, const T value, const T lBound, const T uBound, const int p)\n%s{ VACUITY_REACH;\n//@BODY %s\n}\n"
               % (fn, scalar_contract("lowerAndUpperBoundsChecks", exact=False), fn))
    bodies.append(dict(name=fn, file=H, pattern=r"struct BoundsCheck<2u>.*?static inline void lowerAndUpperBoundsChecks\(\s*const std::string& name,\s*const QuantityType& value,",
                       rules=[{"name": "scalar call ; exception propagates", "re": r"BoundsCheckBase::(\w+)\(name, base_type_cast\(value\), (\w+), p\);",
                               "sub": r"BoundsCheckBase_\1(name, base_type_cast(value), \2, p); if (g_threw) return;", "min": 2, "max": 2}]))
    harness.append("void h_%s(void) { int in_name; T in_value, in_lBound, in_uBound; int in_p; %s(in_name, in_value, in_lBound, in_uBound, in_p); }" % (fn, fn))
    jobs.append(Job(fn, None, enforce=fn, replace=["BoundsCheckBase_lowerBoundCheck", "BoundsCheckBase_upperBoundCheck"], min_obligations=5))
    # tensor overloads
    for N, n in ((1, 3), (2, 4), (3, 6)):
        for fam, d in FAM.items():
            for kind, ty in (("", "T"), ("_qt", "QuantityType")):
                fn = "BoundsCheck%d_%s%s" % (N, fam, kind)
                pat = r"struct BoundsCheck<%du>.*?static void %s\(\s*const std::string& name,\s*const tfel::math::stensor<%du, %s>& s," % (N, fam, N, ty)
                tpl.append("/* BoundsCheck<%du>::%s on stensor<%du,%s> */\nvoid %s(const T* p_s, %s, const int p)\n%s{ VACUITY_REACH;\n//@BODY %s\n}\n"
                           % (N, fam, N, ty, fn, d["params"], tensor_contract(fam, n), fn))
                bodies.append(dict(name=fn, file=H, pattern=pat, rules=tensor_rules(n)))
                harness.append("void h_%s(void) { T a[%d]; T in_lBound, in_uBound; int in_p; %s(a, %s, in_p); }" % (fn, n, fn, ", ".join("in_" + a.strip() for a in d["args"].split(","))))
                jobs.append(Job(fn, None, enforce=fn, replace=["BoundsCheckBase_" + fam], min_obligations=5,
                                expect_labels=["strict-throws-iff-some-component-out", "strict-reports-first-out-component", "warning-never-throws-and-warns-once-per-out-component"]))
    text = "\n".join(tpl) + "\n" + "\n".join(harness) + "\n"
    path = os.path.join(ctx.out, "boundscheck.c.in")
    open(path, "w").write(text)
    for j in jobs:
        j.template = path
        j.bodies = bodies
    return jobs


def emitter_fact(ctx):
    """Supporting static fact (not an obligation): physical bounds are emitted without a policy argument, i.e. with the Strict default."""
    try:
        raw, line = X.locate(ctx.repo, "mfront/src/CodeGeneratorUtilities.cxx", r"void writePhysicalBoundsChecks\(std::ostream& os,")
    except X.ExtractionDrift as e:
        ctx.static_facts.append("NOT ESTABLISHED: writePhysicalBoundsChecks not found (%s)" % e)
        return
    body = X.strip_comments(raw)
    if "policy" in body or "Policy" in body:
        ctx.static_facts.append("NOT ESTABLISHED: mfront/src/CodeGeneratorUtilities.cxx:writePhysicalBoundsChecks mentions a policy; 'physical bounds are always strict' is no longer a syntactic fact")
    else:
        ctx.static_facts.append("mfront/src/CodeGeneratorUtilities.cxx:%d writePhysicalBoundsChecks emits the BoundsCheck calls without any policy argument, so the `= Strict` default of BoundsCheck.hxx applies (regex on the emitter text; supporting fact, not proof)" % line)
    # the shared emitter: every emitted BoundsCheck call statement must end with the policy_argument, which is empty exactly for physical bounds
    import re
    try:
        raw, line = X.locate(ctx.repo, "mfront/src/CodeGeneratorUtilities.cxx", r"static void writeBoundsChecks\(std::ostream& os,")
        body = X.strip_comments(raw)
        stmts = [st for st in body.split(";") if re.search(r"Bounds?Checks?\(", st)]
        bad = [st.strip()[:80] for st in stmts if "policy_argument" not in st]
        lam = re.search(r"const auto policy_argument = \[&physicalBounds, &policy\]\(\) -> std::string \{\s*if \(!physicalBounds\) \{\s*return \", \" \+ std::string\{policy\};\s*\}\s*return \"\";\s*\}\(\)", body)
        if not stmts or bad or not lam:
            ctx.undecided("C27/static/emitter-passes-policy", "supporting static fact not established: %d of %d emitted BoundsCheck call statements in writeBoundsChecks lack the policy argument (or the policy_argument lambda changed): %s" % (len(bad), len(stmts), bad[:2]))
        else:
            ctx.static_facts.append("mfront/src/CodeGeneratorUtilities.cxx:%d static writeBoundsChecks: all %d emitted BoundsCheck call statements append policy_argument, which is \"\" for physical bounds and \", <policy>\" otherwise (regex on the emitter text; supporting fact, not proof)" % (line, len(stmts)))
    except X.ExtractionDrift as e:
        ctx.undecided("C27/static/emitter-passes-policy", "emitter not found: %s" % e)
    try:
        hdr = open(os.path.join(ctx.repo, H)).read()
        n = hdr.count("const OutOfBoundsPolicy p = Strict")
        ctx.static_facts.append("BoundsCheck.hxx: %d policy parameters, all defaulted to Strict" % n if n == hdr.count("const OutOfBoundsPolicy p") else
                                "NOT ESTABLISHED: some OutOfBoundsPolicy parameter of BoundsCheck.hxx does not default to Strict")
    except OSError:
        pass


# ---- the emitter under contract (emission protocol) ---------------------------------------------------------------------------------
def _emit_calls(m):
    """`os << a << "lit" "lit2" << b;` -> EMIT_TOK(a); EMIT_LIT("lit" "lit2"); EMIT_TOK(b);  (order preserved)"""
    import re as _re
    body = m.group(1)
    # split on << outside string literals
    parts, cur, i, instr = [], "", 0, False
    while i < len(body):
        c = body[i]
        if c == '"' and (i == 0 or body[i - 1] != "\\"):
            instr = not instr
        if not instr and body.startswith("<<", i):
            parts.append(cur.strip())
            cur = ""
            i += 2
            continue
        cur += c
        i += 1
    parts.append(cur.strip())
    out = []
    for part in parts:
        if not part:
            continue
        if part.startswith('"'):
            out.append("EMIT_LIT(%s);" % part)
        elif part == "policy_argument":
            out.append("EMIT_TOK(policy_argument);")
        else:
            out.append("EMIT_TOK(TOK_OTHER);")
    return " ".join(out)


EMITTER = "mfront/src/CodeGeneratorUtilities.cxx"
EMITTER_BODIES = [
    dict(name="policy_argument_lambda", file=EMITTER, pattern=r"const auto policy_argument = \[&physicalBounds, &policy\]\(\) -> std::string", rules=[
        {"name": "non-empty policy text", "re": r"return \", \" \+ std::string\{policy\};", "sub": "return POLICY_PRESENT;", "min": 1, "max": 1},
        {"name": "empty policy text", "re": r"return \"\";", "sub": "return POLICY_ABSENT;", "min": 1, "max": 1},
        {"name": "no unmapped C++ may remain", "forbid": r"std::|\+"}]),
    dict(name="writeBoundsChecks", file=EMITTER, pattern=r"static void writeBoundsChecks\(std::ostream& os,", rules=[
        {"name": "variable description accessors", "re": r"\bv\.(hasPhysicalBounds|hasBounds)\(\)", "sub": r"v_\1()", "min": 2},
        {"name": "bounds selection (content abstracted)", "re": r"const auto& bounds = physicalBounds \? v\.getPhysicalBounds\(\) : v\.getBounds\(\);", "sub": "", "min": 1, "max": 1},
        {"name": "numeric_type lambda (text of the cast: abstracted)", "drop_block": r"const auto numeric_type = \[&v\] \{", "sub": "", "min": 1},
        {"name": "numeric_type lambda call tail", "re": r"^(\s*)\(\);", "sub": r"\1;", "flags": 8},
        {"name": "this_pointer text (abstracted)", "re": r"const auto this_pointer = addThis \? \"this->\" : \"\";", "sub": "", "min": 1, "max": 1},
        {"name": "policy_argument lambda -> extracted function", "drop_block": r"const auto policy_argument = \[&physicalBounds, &policy\]\(\) -> std::string \{", "sub": "const int policy_argument = policy_argument_lambda(physicalBounds)", "min": 1},
        {"name": "immediately-invoked lambda: call tail", "re": r"policy_argument_lambda\(physicalBounds\)\(\);", "sub": "policy_argument_lambda(physicalBounds);", "min": 1, "max": 1},
        {"name": "os << ... statements -> emission calls", "re": r'\bos << ((?:"(?:\\.|[^"\\])*"|[^;"])*);', "sub": _emit_calls, "min": 6},
        {"name": "bounds type", "re": r"bounds\.boundsType", "sub": "bounds_boundsType", "min": 3},
        {"name": "enumerators", "re": r"VariableBoundsDescription::", "sub": "VariableBoundsDescription_", "min": 3},
        {"name": "tfel::raise -> ghost exception", "re": r"tfel::raise\([^;]*\);", "sub": "{ g_threw = 1; return; }", "min": 1, "max": 1},
        {"name": "no unmapped C++ may remain", "forbid": r"std::|<<|\bos\b|\[&"}]),
]


def emitter_jobs(ctx):
    tpl = os.path.join(ctx.spec_dir, "emitter.c.in")
    return [Job("emitter_writeBoundsChecks", tpl, bodies=EMITTER_BODIES, enforce="writeBoundsChecks", unwind=64, min_obligations=4, drop_checks=["--conversion-check"],
                expect_labels=["every-standard-bounds-check-is-emitted-with-the-policy-argument", "physical-bounds-checks-are-emitted-without-policy-hence-Strict"])]


def run(ctx):
    ctx.assume("std::string / std::to_string message building is dropped (message-only statements, must-fire rules)",
               "[[noreturn]] throwOutOf*Exception really throws (src/Material/BoundsCheck.cxx is not under contract): modelled by a ghost flag and end of path",
               "exceptions thrown by a component check propagate out of the tensor overload (no try/catch in BoundsCheck.hxx)",
               "qt::getValue()/base_type_cast return the underlying value (assumed contract)")
    emitter_fact(ctx)
    jobs = build(ctx)
    ctx.assume("emitter (writeBoundsChecks in mfront/src/CodeGeneratorUtilities.cxx): every `os << ...` statement is rendered as EMIT_LIT / EMIT_TOK calls in the same order and control flow; a ghost automaton checks that each emitted BoundsCheck call carries the policy argument (standard bounds) or none (physical bounds, hence the Strict default); the text of names, casts and bound values is abstracted")
    run_jobs(ctx, jobs + emitter_jobs(ctx))
