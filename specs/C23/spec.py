"""C23 — finite-strain stress and tangent-operator conversions (E2, proof over the reals)."""
from engines.symvc.discharge import run_spec


def run(ctx):
    ctx.trust("vsym symbolic differentiation rules (sum, product, quotient)")
    ctx.assume("the source stress is an affine function of its kinematic variable with a symbolic derivative: arbitrary value and arbitrary tangent at the point (what a converter may depend on)",
               "covered: Cauchy / PK1 / PK2 conversions (definitions and mutual inverses); DS_DEGL <-> DS_DC; DS_DEGL -> DS_DF, -> SPATIAL_MODULI -> DTAU_DF, -> DSIG_DF (and the composition DTAU_DF -> DSIG_DF), SPATIAL_MODULI <-> DS_DEGL, C_TRUESDELL; DSIG_DF <-> DSIG_DDF; PK1 derivative conversions are under C06",
               "converter web (1D, 2D): Jaumann / Abaqus rate moduli anchored by their rate forms, DPK1_DF, 33 converters; NOT covered: DTAU_DDF, DT_DELOG (eigen + log), the run-time dispatch in src/Material and the code generation of conversion calls in mfront/src; 3D: stress measures and material operators (both tiers), increment operators (thorough); from-DS_DEGL and the converter web in 3D are written (VERIF_EXPERIMENTAL) but did not finish within 30-50 minutes and are in neither tier")
    srcs = ""
    run_spec(ctx, flags=("-DVERIF_THOROUGH " if ctx.thorough else "") + srcs, expect_min=200, per_timeout=900 if ctx.thorough else 120)
    # native replay of the DS_DF conversions against finite differences (derivative obligations have no symbolic-to-double replay)
    from engines import replay as R
    import json
    done = None
    for o in ctx.obligations:
        if o.status != "failed" or "DS_DEGL->DS_DF" not in o.name:
            continue
        if done is None:
            done = R.native(ctx, "C23.cxx", [], extra_flags="-w")
        ok, out = done
        o.reproduced = ok
        o.detail += " | native replay against finite differences: %s" % out.strip().replace("\n", " ; ")[-300:]
        try:
            d = json.load(open(o.replay)); d["reproduced_on_real_code"] = ok; d["finite_difference_replay"] = out; json.dump(d, open(o.replay, "w"), indent=1)
        except Exception:
            pass
