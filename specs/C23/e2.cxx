// C23 — finite-strain stress and tangent-operator conversions (E2). The source stress is an affine function of its kinematic variable
// with a symbolic derivative D (arbitrary value and arbitrary tangent at the point), every target stress is computed by the real
// conversion functions, and the converted operator is compared with the exact symbolic derivative of the target stress.
#include "vsym/traits.hxx"
#include "TFEL/Math/stensor.hxx"
#include "TFEL/Math/tensor.hxx"
#include "TFEL/Math/st2tost2.hxx"
#include "TFEL/Math/t2tost2.hxx"
#include "TFEL/Math/t2tot2.hxx"
#include "TFEL/Material/FiniteStrainBehaviourTangentOperator.hxx"
#include "vsym/driver.hxx"
#include "common/mandel.hxx"
using namespace tfel::math;
using namespace tfel::material;
using namespace spec;
using TO = FiniteStrainBehaviourTangentOperatorBase;
static std::string ij(unsigned i, unsigned j) { return "(" + std::to_string(i) + "," + std::to_string(j) + ")"; }

// ---- stress measures ----------------------------------------------------------------------------------------------------
template <unsigned short N, class E> void c_stress_measures(E& e) {
  using T = typename E::real;
  const auto F = sym_tensor<N>(e, "F");
  const auto sig = sym_stensor<N>(e, "s");
  const T J = det(F);
  e.require(e.lt(T(0), J));
  const auto mF = Tm<N, T>(F);
  const auto mS = M<N, T>(e, sig);
  // definitions: P = J sig F^-T (P.F^T = J sig), S = J F^-1 sig F^-T (F.S.F^T = J sig)
  const tensor<N, T> P = convertCauchyStressToFirstPiolaKirchhoffStress(sig, F);
  ensure_mat_eq(e, "P.F^T=J.sigma", mul(Tm<N, T>(P), tr(mF)), scale(J, mS));
  const stensor<N, T> S = convertCauchyStressToSecondPiolaKirchhoffStress(sig, F);
  ensure_mat_eq(e, "F.S.F^T=J.sigma", mul(mul(mF, M<N, T>(e, S)), tr(mF)), scale(J, mS));
  // mutually inverse
  const stensor<N, T> s1 = convertFirstPiolaKirchhoffStressToCauchyStress(P, F);
  for (unsigned short i = 0; i < sig.size(); ++i) e.ensure("Cauchy->PK1->Cauchy[" + std::to_string(i) + "]", e.eq(s1[i], sig[i]));
  const stensor<N, T> s2 = convertSecondPiolaKirchhoffStressToCauchyStress(S, F);
  for (unsigned short i = 0; i < sig.size(); ++i) e.ensure("Cauchy->PK2->Cauchy[" + std::to_string(i) + "]", e.eq(s2[i], sig[i]));
  const auto S0 = sym_stensor<N>(e, "S");
  const stensor<N, T> sc = convertSecondPiolaKirchhoffStressToCauchyStress(S0, F);
  const stensor<N, T> Sb = convertCauchyStressToSecondPiolaKirchhoffStress(sc, F);
  for (unsigned short i = 0; i < sig.size(); ++i) e.ensure("PK2->Cauchy->PK2[" + std::to_string(i) + "]", e.eq(Sb[i], S0[i]));
}
// ---- tangent operators from a material law S(E_GL) -------------------------------------------------------------------------
template <unsigned short N, class E> struct Hyper {
  using T = typename E::real;
  stensor<N, T> a;
  st2tost2<N, T> D;  // dS/dE_GL
  explicit Hyper(E& e) : a(sym_stensor<N>(e, "a")) {
    for (unsigned short i = 0; i < a.size(); ++i) for (unsigned short j = 0; j < a.size(); ++j) D(i, j) = e.var("D" + std::to_string(i) + "_" + std::to_string(j));
  }
  stensor<N, T> S_of_E(const stensor<N, T>& egl) const {
    stensor<N, T> S = a;
    for (unsigned short i = 0; i < a.size(); ++i) for (unsigned short j = 0; j < a.size(); ++j) S[i] = S[i] + D(i, j) * egl[j];
    return S;
  }
};
template <unsigned short N, class E> void c_material_operators(E& e) {
  using T = typename E::real;
  if constexpr (E::can_differentiate) {
    Hyper<N, E> h(e);
    // S as a function of the right Cauchy-Green tensor C (symbolic): E = (C - I)/2
    const auto C = sym_stensor<N>(e, "C");
    const stensor<N, T> egl = (C - stensor<N, T>::Id()) / T(2);
    const stensor<N, T> S = h.S_of_E(egl);
    const tensor<N, T> F0 = tensor<N, T>::Id(), F1 = tensor<N, T>::Id();
    const stensor<N, T> s0(T(0));
    const st2tost2<N, T> dS_dC = convert<TO::DS_DC, TO::DS_DEGL>(h.D, F0, F1, s0);
    for (unsigned short i = 0; i < C.size(); ++i) for (unsigned short j = 0; j < C.size(); ++j)
      e.ensure("DS_DEGL->DS_DC" + ij(i, j) + "=dS_i/dC_j", e.eq(dS_dC(i, j), e.d(S[i], C[j])));
    const st2tost2<N, T> back = convert<TO::DS_DEGL, TO::DS_DC>(dS_dC, F0, F1, s0);
    for (unsigned short i = 0; i < C.size(); ++i) for (unsigned short j = 0; j < C.size(); ++j)
      e.ensure("DS_DC->DS_DEGL round trip" + ij(i, j), e.eq(back(i, j), h.D(i, j)));
  } else {
    e.ensure("derivative obligations are symbolic only", e.tru());
  }
}
template <unsigned short N, class E> void c_spatial_operators(E& e) {
  using T = typename E::real;
  if constexpr (E::can_differentiate) {
    Hyper<N, E> h(e);
    const auto F = sym_tensor<N>(e, "F");
    const T J = det(F);
    e.require(e.lt(T(0), J));
    const tensor<N, T> F0 = tensor<N, T>::Id();
    const stensor<N, T> egl = computeGreenLagrangeTensor(F);
    const stensor<N, T> S = h.S_of_E(egl);
    const stensor<N, T> sig = convertSecondPiolaKirchhoffStressToCauchyStress(S, F);
    const stensor<N, T> tau = J * sig;
    // DS_DF
    const t2tost2<N, T> dS_dF = convert<TO::DS_DF, TO::DS_DEGL>(h.D, F0, F, sig);
    for (unsigned short i = 0; i < S.size(); ++i) for (unsigned short j = 0; j < F.size(); ++j)
      e.ensure("DS_DEGL->DS_DF" + ij(i, j) + "=dS_i/dF_j", e.eq(dS_dF(i, j), e.d(S[i], F[j])));
    // DTAU_DF through the spatial moduli
    const st2tost2<N, T> Cs = convert<TO::SPATIAL_MODULI, TO::DS_DEGL>(h.D, F0, F, sig);
    const t2tost2<N, T> dtau_dF = convert<TO::DTAU_DF, TO::SPATIAL_MODULI>(Cs, F0, F, sig);
    for (unsigned short i = 0; i < S.size(); ++i) for (unsigned short j = 0; j < F.size(); ++j)
      e.ensure("DS_DEGL->SPATIAL_MODULI->DTAU_DF" + ij(i, j) + "=dtau_i/dF_j", e.eq(dtau_dF(i, j), e.d(tau[i], F[j])));
    // DSIG_DF
    const t2tost2<N, T> dsig_dF = convert<TO::DSIG_DF, TO::DS_DEGL>(h.D, F0, F, sig);
    for (unsigned short i = 0; i < S.size(); ++i) for (unsigned short j = 0; j < F.size(); ++j)
      e.ensure("DS_DEGL->DSIG_DF" + ij(i, j) + "=dsigma_i/dF_j", e.eq(dsig_dF(i, j), e.d(sig[i], F[j])));
    // composition and round trips
    const t2tost2<N, T> dsig2 = convert<TO::DSIG_DF, TO::DTAU_DF>(dtau_dF, F0, F, sig);
    for (unsigned short i = 0; i < S.size(); ++i) for (unsigned short j = 0; j < F.size(); ++j)
      e.ensure("(DTAU_DF->DSIG_DF) o (DS_DEGL->DTAU_DF) = DS_DEGL->DSIG_DF" + ij(i, j), e.eq(dsig2(i, j), dsig_dF(i, j)));
    const st2tost2<N, T> Dback = convert<TO::DS_DEGL, TO::SPATIAL_MODULI>(Cs, F0, F, sig);
    for (unsigned short i = 0; i < S.size(); ++i) for (unsigned short j = 0; j < S.size(); ++j)
      e.ensure("SPATIAL_MODULI->DS_DEGL round trip" + ij(i, j), e.eq(Dback(i, j), h.D(i, j)));
    const st2tost2<N, T> Ct = convert<TO::C_TRUESDELL, TO::SPATIAL_MODULI>(Cs, F0, F, sig);
    for (unsigned short i = 0; i < S.size(); ++i) for (unsigned short j = 0; j < S.size(); ++j)
      e.ensure("C_TRUESDELL=SPATIAL_MODULI/J" + ij(i, j), e.eq(Ct(i, j) * J, Cs(i, j)));
  } else {
    e.ensure("derivative obligations are symbolic only", e.tru());
  }
}
// derivative with respect to the deformation gradient increment dF = F1.F0^-1
template <unsigned short N, class E> void c_increment_operators(E& e) {
  using T = typename E::real;
  if constexpr (E::can_differentiate) {
    const auto dF = sym_tensor<N>(e, "dF");
    const auto F0 = sym_tensor<N>(e, "G");
    e.require(e.lt(T(0), det(F0)));
    const tensor<N, T> F1 = dF * F0;
    // Cauchy stress an affine function of F1 with symbolic derivative
    const auto a = sym_stensor<N>(e, "a");
    t2tost2<N, T> ds;
    for (unsigned short i = 0; i < a.size(); ++i) for (unsigned short j = 0; j < F1.size(); ++j) ds(i, j) = e.var("ds" + std::to_string(i) + "_" + std::to_string(j));
    stensor<N, T> sig = a;
    for (unsigned short i = 0; i < a.size(); ++i) for (unsigned short j = 0; j < F1.size(); ++j) sig[i] = sig[i] + ds(i, j) * F1[j];
    const t2tost2<N, T> dsig_ddF = convert<TO::DSIG_DDF, TO::DSIG_DF>(ds, F0, F1, sig);
    for (unsigned short i = 0; i < a.size(); ++i) for (unsigned short j = 0; j < dF.size(); ++j)
      e.ensure("DSIG_DF->DSIG_DDF" + ij(i, j) + "=dsigma_i/d(dF)_j", e.eq(dsig_ddF(i, j), e.d(sig[i], dF[j])));
    const t2tost2<N, T> back = convert<TO::DSIG_DF, TO::DSIG_DDF>(dsig_ddF, F0, F1, sig);
    for (unsigned short i = 0; i < a.size(); ++i) for (unsigned short j = 0; j < dF.size(); ++j)
      e.ensure("DSIG_DDF->DSIG_DF round trip" + ij(i, j), e.eq(back(i, j), ds(i, j)));
  } else {
    e.ensure("derivative obligations are symbolic only", e.tru());
  }
}

// ---- the web of converters: every available conversion R <- S maps the canonical operator of flag S to the canonical operator of
// flag R. Canonical operators are anchored by their definitions: derivative of the target stress (DS_DF, DTAU_DF, DSIG_DF, DPK1_DF),
// or the rate form for the rate moduli, with an arbitrary velocity gradient L (dF = L.F):
//   Truesdell rate of Kirchhoff:  dtau = Cs : sym(L) + L.tau + tau.L^T        (SPATIAL_MODULI; C_TRUESDELL = Cs / J)
//   Jaumann  rate of Kirchhoff:   dtau = Cj : sym(L) + W.tau - tau.W, W = skew(L)  (C_TAU_JAUMANN; ABAQUS = Cj / J)
template <unsigned short N, class T, class A, class B, class E>
void same_op(E& e, const std::string& what, const A& a, const B& b, const unsigned short nr, const unsigned short nc) {
  for (unsigned short i = 0; i < nr; ++i) for (unsigned short j = 0; j < nc; ++j) e.ensure(what + ij(i, j), e.eq(a(i, j), b(i, j)));
}
template <unsigned short N, class E> void c_web(E& e) {
  using T = typename E::real;
  if constexpr (E::can_differentiate) {
    Hyper<N, E> h(e);
    const auto F = sym_tensor<N>(e, "F");
    const T J = det(F);
    e.require(e.lt(T(0), J));
    const tensor<N, T> F0 = tensor<N, T>::Id();
    const stensor<N, T> S = h.S_of_E(computeGreenLagrangeTensor(F));
    const stensor<N, T> sig = convertSecondPiolaKirchhoffStressToCauchyStress(S, F);
    const stensor<N, T> tau = J * sig;
    const tensor<N, T> P = convertCauchyStressToFirstPiolaKirchhoffStress(sig, F);
    const unsigned short ns = S.size(), nt = F.size();
    // canonical operators (first route from DS_DEGL)
    const st2tost2<N, T> X_degl = h.D;
    const st2tost2<N, T> X_dc = convert<TO::DS_DC, TO::DS_DEGL>(h.D, F0, F, sig);
    const st2tost2<N, T> X_sm = convert<TO::SPATIAL_MODULI, TO::DS_DEGL>(h.D, F0, F, sig);
    const st2tost2<N, T> X_tr = convert<TO::C_TRUESDELL, TO::DS_DEGL>(h.D, F0, F, sig);
    const st2tost2<N, T> X_abq = convert<TO::ABAQUS, TO::DS_DEGL>(h.D, F0, F, sig);
    const st2tost2<N, T> X_cj = convert<TO::C_TAU_JAUMANN, TO::ABAQUS>(X_abq, F0, F, sig);
    const t2tost2<N, T> X_dsdf = convert<TO::DS_DF, TO::DS_DEGL>(h.D, F0, F, sig);
    const t2tost2<N, T> X_dtau = convert<TO::DTAU_DF, TO::DS_DF>(X_dsdf, F0, F, sig);
    const t2tost2<N, T> X_dsig = convert<TO::DSIG_DF, TO::DS_DEGL>(h.D, F0, F, sig);
    const t2tot2<N, T> X_dpk1 = convert<TO::DPK1_DF, TO::DS_DEGL>(h.D, F0, F, sig);
    // anchors: derivatives
    for (unsigned short i = 0; i < ns; ++i) for (unsigned short j = 0; j < nt; ++j) {
      e.ensure("anchor DS_DF" + ij(i, j) + "=dS_i/dF_j", e.eq(X_dsdf(i, j), e.d(S[i], F[j])));
      e.ensure("anchor DTAU_DF (via DS_DF)" + ij(i, j) + "=dtau_i/dF_j", e.eq(X_dtau(i, j), e.d(tau[i], F[j])));
      e.ensure("anchor DSIG_DF" + ij(i, j) + "=dsigma_i/dF_j", e.eq(X_dsig(i, j), e.d(sig[i], F[j])));
    }
    for (unsigned short i = 0; i < nt; ++i) for (unsigned short j = 0; j < nt; ++j)
      e.ensure("anchor DPK1_DF" + ij(i, j) + "=dP_i/dF_j", e.eq(X_dpk1(i, j), e.d(P[i], F[j])));
    // anchors: rate forms with an arbitrary velocity gradient
    {
      const auto L = sym_tensor<N>(e, "L");
      const tensor<N, T> dF = L * F;
      stensor<N, T> dtau;
      for (unsigned short i = 0; i < ns; ++i) { dtau[i] = T(0); for (unsigned short j = 0; j < nt; ++j) dtau[i] = dtau[i] + e.d(tau[i], F[j]) * dF[j]; }
      const auto mL = Tm<N, T>(L);
      const auto mtau = M<N, T>(e, tau);
      const auto mW = scale(T(1) / T(2), sub(mL, tr(mL)));
      const stensor<N, T> D = syme(L);
      const stensor<N, T> cs_d = X_sm * D;
      const stensor<N, T> cj_d = X_cj * D;
      ensure_mat_eq(e, "anchor SPATIAL_MODULI: dtau = Cs:D + L.tau + tau.L^T", M<N, T>(e, dtau), add(M<N, T>(e, cs_d), add(mul(mL, mtau), mul(mtau, tr(mL)))));
      ensure_mat_eq(e, "anchor C_TAU_JAUMANN: dtau = Cj:D + W.tau - tau.W", M<N, T>(e, dtau), add(M<N, T>(e, cj_d), sub(mul(mW, mtau), mul(mtau, mW))));
    }
    for (unsigned short i = 0; i < ns; ++i) for (unsigned short j = 0; j < ns; ++j) {
      e.ensure("anchor C_TRUESDELL = SPATIAL_MODULI / J" + ij(i, j), e.eq(X_tr(i, j) * J, X_sm(i, j)));
      e.ensure("anchor ABAQUS = C_TAU_JAUMANN / J" + ij(i, j), e.eq(X_abq(i, j) * J, X_cj(i, j)));
    }
    // the web: every other available converter
#define WEB(R, S, XR, XS, NR, NC) same_op<N, T>(e, #R "<-" #S, convert<TO::R, TO::S>(XS, F0, F, sig), XR, NR, NC)
    WEB(DS_DEGL, DS_DC, X_degl, X_dc, ns, ns);
    WEB(DS_DEGL, SPATIAL_MODULI, X_degl, X_sm, ns, ns);
    WEB(DS_DF, DS_DC, X_dsdf, X_dc, ns, nt);
    WEB(ABAQUS, SPATIAL_MODULI, X_abq, X_sm, ns, ns);
    WEB(DSIG_DF, C_TRUESDELL, X_dsig, X_tr, ns, nt);
    WEB(SPATIAL_MODULI, ABAQUS, X_sm, X_abq, ns, ns);
    WEB(C_TRUESDELL, SPATIAL_MODULI, X_tr, X_sm, ns, ns);
    WEB(SPATIAL_MODULI, C_TRUESDELL, X_sm, X_tr, ns, ns);
    WEB(DSIG_DF, DTAU_DF, X_dsig, X_dtau, ns, nt);
    WEB(SPATIAL_MODULI, DTAU_DF, X_sm, X_dtau, ns, ns);
    WEB(C_TAU_JAUMANN, DTAU_DF, X_cj, X_dtau, ns, ns);
    WEB(C_TRUESDELL, DTAU_DF, X_tr, X_dtau, ns, ns);
    WEB(ABAQUS, C_TAU_JAUMANN, X_abq, X_cj, ns, ns);
    WEB(C_TAU_JAUMANN, SPATIAL_MODULI, X_cj, X_sm, ns, ns);
    WEB(SPATIAL_MODULI, C_TAU_JAUMANN, X_sm, X_cj, ns, ns);
    WEB(ABAQUS, DTAU_DF, X_abq, X_dtau, ns, ns);
    WEB(DTAU_DF, C_TAU_JAUMANN, X_dtau, X_cj, ns, nt);
    WEB(DTAU_DF, ABAQUS, X_dtau, X_abq, ns, nt);
    WEB(DTAU_DF, SPATIAL_MODULI, X_dtau, X_sm, ns, nt);
    WEB(DSIG_DF, ABAQUS, X_dsig, X_abq, ns, nt);
    WEB(DPK1_DF, DSIG_DF, X_dpk1, X_dsig, nt, nt);
    WEB(DTAU_DF, DPK1_DF, X_dtau, X_dpk1, ns, nt);
    WEB(DSIG_DF, DPK1_DF, X_dsig, X_dpk1, ns, nt);
#undef WEB
  } else {
    e.ensure("derivative obligations are symbolic only", e.tru());
  }
}
#define C23_N(N)                                                                        \
  VSYM_CONTRACT("stress-measures/" #N "D", (c_stress_measures<N##u>))                    \
  VSYM_CONTRACT("DS_DEGL<->DS_DC/" #N "D", (c_material_operators<N##u>))                 \
  VSYM_CONTRACT("from-DS_DEGL/" #N "D", (c_spatial_operators<N##u>))                     \
  VSYM_CONTRACT("increment-operators/" #N "D", (c_increment_operators<N##u>))
#define C23_WEB(N) VSYM_CONTRACT("converter-web/" #N "D", (c_web<N##u>))
C23_N(1) C23_WEB(1)
C23_N(2) C23_WEB(2)
#ifdef VERIF_EXPERIMENTAL  /* 3D, symbolic deformation gradient: the web did not finish its VC generation in 50 minutes, from-DS_DEGL not in 30 minutes */
C23_WEB(3)
VSYM_CONTRACT("from-DS_DEGL/3D", (c_spatial_operators<3u>))
#endif
VSYM_CONTRACT("stress-measures/3D", (c_stress_measures<3u>))
VSYM_CONTRACT("DS_DEGL<->DS_DC/3D", (c_material_operators<3u>))
#ifdef VERIF_THOROUGH
VSYM_CONTRACT("increment-operators/3D", (c_increment_operators<3u>))
#endif
int main(int argc, char** argv) { return vsym::driver_main(argc, argv); }
