// C26 — inverse Langevin approximations (E2): value/derivative consistency, oddness, monotonicity over the reals.
#include "vsym/traits.hxx"
#include "TFEL/Config/TFELConfig.hxx"
#include "TFEL/Material/InverseLangevinFunction.hxx"
#include "vsym/driver.hxx"
using namespace tfel::material;
using A = InverseLangevinFunctionApproximations;

template <class E> typename E::real open_unit(E& e, const char* n = "y") {
  using T = typename E::real;
  const T y = e.var(n);
  e.require(e.lt(T(-1), y));
  e.require(e.lt(y, T(1)));
  return y;
}
template <A a, class E> void c_rational(E& e) {
  using T = typename E::real;
  const T y = open_unit(e);
  const T f = computeApproximateInverseLangevinFunction<a, T>(y);
  const auto fd = computeApproximateInverseLangevinFunctionAndDerivative<a, T>(y);
  e.ensure("AndDerivative.first = computeFunction", e.eq(fd.first, f));
  if constexpr (E::can_differentiate) {
    e.ensure("AndDerivative.second = d/dy computeFunction", e.eq(fd.second, e.d(f, y)));
  }
  e.ensure("increasing: derivative > 0 on (-1,1)", e.lt(T(0), fd.second));
  const T g = computeApproximateInverseLangevinFunction<a, T>(-y);
  e.ensure("odd: f(-y) = -f(y)", e.eq(g, -f));
  e.ensure("sign: y f(y) >= 0", e.le(T(0), y * f));
}
template <class E> void c_cohen(E& e) { c_rational<A::COHEN_1991>(e); }
template <class E> void c_jedynak(E& e) { c_rational<A::JEDYNAK_2015>(e); }
template <class E> void c_morch(E& e) { c_rational<A::MORCH_2022>(e); }
template <class E> void c_kuhn_grun(E& e) {
  using T = typename E::real;
  const T y = open_unit(e);
  e.ensure("KUHN_GRUN_1942 is the MORCH_2022 expansion", e.eq(computeApproximateInverseLangevinFunction<A::KUHN_GRUN_1942, T>(y), computeApproximateInverseLangevinFunction<A::MORCH_2022, T>(y)));
  const auto a = computeApproximateInverseLangevinFunctionAndDerivative<A::KUHN_GRUN_1942, T>(y);
  const auto b = computeApproximateInverseLangevinFunctionAndDerivative<A::MORCH_2022, T>(y);
  e.ensure("KUHN_GRUN_1942 derivative is the MORCH_2022 one", e.eq(a.first, b.first) && e.eq(a.second, b.second));
}
// the pole: Cohen, Jedynak and Bergstrom-Boyce blow up like 1/(1-y) at y -> 1: (1-y) f(y) stays within fixed positive bounds near the pole
template <A a, class E> void c_pole(E& e) {
  using T = typename E::real;
  const T y = e.var("y");
  e.require(e.lt(T(9) / T(10), y));
  e.require(e.lt(y, T(1)));
  const T f = computeApproximateInverseLangevinFunction<a, T>(y);
  e.ensure("pole of order one at y=1: 9/10 <= (1-y) f(y) <= 11/10 on (0.9,1)", e.le(T(9) / T(10), (T(1) - y) * f) && e.le((T(1) - y) * f, T(11) / T(10)));
}
template <class E> void c_pole_cohen(E& e) { c_pole<A::COHEN_1991>(e); }
template <class E> void c_pole_jedynak(E& e) { c_pole<A::JEDYNAK_2015>(e); }
// Bergstrom-Boyce: tan/cos are uninterpreted; the axioms used are listed
template <class E> void c_bergstrom_boyce(E& e) {
  using T = typename E::real;
  const T y = open_unit(e);
  const T f = computeBergstromBoyce1998ApproximateInverseLangevinFunction<T>(y);
  const auto fd = computeBergstromBoyce1998ApproximateInverseLangevinFunctionAndDerivative<T>(y);
  if constexpr (E::symbolic) {
    const T c2 = T(1.58986);
    e.axiom("tan is odd: tan(-c2 y) = -tan(c2 y)", e.eq(std::tan(c2 * (-y)), -std::tan(c2 * y)));
    e.axiom("tan is odd (argument written -(c2 y))", e.eq(std::tan(-(c2 * y)), -std::tan(c2 * y)));
    e.axiom("cos(c2 y)^2 > 0 for |y| < c0 (c0 c2 < pi/2)", e.lt(T(0), std::cos(c2 * y) * std::cos(c2 * y)));
  }
  e.ensure("AndDerivative.first = function", e.eq(fd.first, f));
  if constexpr (E::can_differentiate) {
    e.ensure("AndDerivative.second = d/dy function (tan' = 1/cos^2)", e.eq(fd.second, e.d(f, y)));
  }
  const T g = computeBergstromBoyce1998ApproximateInverseLangevinFunction<T>(-y);
  e.ensure("odd: f(-y) = -f(y)", e.eq(g, -f));
  e.ensure("increasing: derivative > 0 on (-1,1)", e.lt(T(0), fd.second));
}
VSYM_CONTRACT("COHEN_1991", c_cohen)
VSYM_CONTRACT("JEDYNAK_2015", c_jedynak)
VSYM_CONTRACT("MORCH_2022", c_morch)
VSYM_CONTRACT("KUHN_GRUN_1942", c_kuhn_grun)
VSYM_CONTRACT("pole/COHEN_1991", c_pole_cohen)
VSYM_CONTRACT("pole/JEDYNAK_2015", c_pole_jedynak)
VSYM_CONTRACT("BergstromBoyce1998", c_bergstrom_boyce)
int main(int argc, char** argv) { return vsym::driver_main(argc, argv); }
