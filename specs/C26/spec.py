"""C26 — inverse Langevin approximations (E2, proof over the reals)."""
from engines.symvc.discharge import run_spec


def run(ctx):
    ctx.trust("vsym symbolic differentiation rules, here including tan' = 1/cos^2 (engines/symvc/vsym/driver.hxx:diff_rec)",
              "axioms on the uninterpreted tan/cos named in the spec: tan(-x) = -tan(x); cos(c2 y)^2 > 0 for |y| < c0 (c0 c2 = 1.3376 < pi/2)")
    ctx.assume("'L(approx(y)) = y within the documented accuracy' needs coth: out of reach, NOT claimed; what is proved is the structural half: value/derivative consistency, oddness, strict monotonicity, sign, and the first-order pole at y=1 for Cohen and Jedynak",
               "decimal coefficients are read as the simplest rationals rounding to the double literals")
    run_spec(ctx, expect_min=25)
