// C10 — cubic polynomial solver returns genuine roots (E2, exact special cases + Cardano one-real-root branch).
#include "vsym/traits.hxx"
#include "TFEL/Math/General/CubicRoots.hxx"
#include "vsym/driver.hxx"
using namespace tfel::math;

template <class E> struct Cubic {
  using T = typename E::real;
  T a3, a2, a1, a0, p, q, delta, x1, x2, x3;
  unsigned short nb = 0;
  Cubic(E& e, const T& a3_, const T& a2_) : a3(a3_), a2(a2_), a1(e.var("a1")), a0(e.var("a0")) { init(e); }
  explicit Cubic(E& e) : a3(e.var("a3")), a2(e.var("a2")), a1(e.var("a1")), a0(e.var("a0")) { init(e); }
  void init(E& e) {
    // "non-negligible leading coefficient"
    e.require(!e.eq(a3, T(0)));
    e.require(e.lt(T(1) / T(1000000), a3 * a3));
    // depressed form t^3 + p t + q, x = t - a2/(3 a3)
    p = (T(3) * a3 * a1 - a2 * a2) / (T(3) * a3 * a3);
    q = (T(2) * a2 * a2 * a2 - T(9) * a3 * a2 * a1 + T(27) * a3 * a3 * a0) / (T(27) * a3 * a3 * a3);
    delta = -T(4) * p * p * p - T(27) * q * q;
  }
  void solve() { nb = CubicRoots::exe(x1, x2, x3, a3, a2, a1, a0); }
  T P(const T& x) const { return ((a3 * x + a2) * x + a1) * x + a0; }
  auto root(E& e, const T& x) const { return e.eq(P(x), T(0)); }
  auto some_root(E& e) const { return root(e, x1) || root(e, x2) || root(e, x3); }
  auto all_roots(E& e) const { return root(e, x1) && root(e, x2) && root(e, x3); }
  auto count_is(E& e, unsigned short k) const { return nb == k ? e.tru() : e.eq(T(0), T(1)); }
};
// p = 0 exactly (t^3 = -q): a triple root when q = 0, otherwise a single real root -cbrt(q)
template <class E> void c_p_zero(E& e) {
  using T = typename E::real;
  Cubic<E> c(e);
  e.require(e.eq(c.p, T(0)));
  e.require(!e.eq(c.q, T(0)));
  e.require(e.lt(T(1) / T(1000000), c.q * c.q));  // q well away from the solver's tiny-value threshold
  c.solve();
  e.ensure("p=0,q!=0: one real root is announced", c.count_is(e, 1));
  e.ensure("p=0,q!=0: the real root is among the returned values", c.some_root(e));
}
template <class E> void c_triple_root(E& e) {
  using T = typename E::real;
  Cubic<E> c(e);
  e.require(e.eq(c.p, T(0)));
  e.require(e.eq(c.q, T(0)));
  c.solve();
  e.ensure("p=q=0: three roots announced", c.count_is(e, 3));
  e.ensure("p=q=0: every returned value is the triple root", c.all_roots(e));
}
// q = 0 exactly (t (t^2 + p) = 0)
template <class E> void c_q_zero(E& e) {
  using T = typename E::real;
  Cubic<E> c(e);
  e.require(e.eq(c.q, T(0)));
  e.require(e.lt(T(1) / T(1000000), c.p * c.p));
  c.solve();
  e.ensure("q=0,p>0: one real root announced / q=0,p<0: three", implies(e.lt(T(0), c.p), c.count_is(e, 1)) && implies(e.lt(c.p, T(0)), c.count_is(e, 3)));
  e.ensure("q=0: announced roots are roots", c.nb == 3 ? c.all_roots(e) : c.some_root(e));
}
// discriminant < 0: one real root by Cardano's formula, returned first. Proved for every (a1, a0) at fixed (a3, a2): the
// nested cube roots of rational functions of four variables are beyond the solvers; with (a3, a2) concrete the reduced
// coefficients p, q are affine in (a1, a0) and the argument below goes through.
template <class E, int A3, int A2> void c_one_real_root(E& e) {
  using T = typename E::real;
  Cubic<E> c(e, T(A3), T(A2));
  e.require(e.lt(c.delta, T(0)));
  e.require(e.lt(T(1) / T(1000000), c.p * c.p));
  e.require(e.lt(T(1) / T(1000000), c.q * c.q));
  c.solve();
  // proof steps (each one an obligation of its own): with U, V the two cube roots of Cardano's formula,
  // (UV)^3 = (-p/3)^3, hence UV = -p/3, hence t = U+V solves t^3 + p t + q = 0; then x1 is identified with t - a2/(3 a3)
  const T w = std::sqrt(T(-1) / T(27) * c.delta);
  const T U = CubicRoots::cbrt((-c.q + w) / T(2)), V = CubicRoots::cbrt((-c.q - w) / T(2));
  const T t = U + V;
  e.lemma("(UV)^3=(-p/3)^3", e.eq(U * V * U * V * U * V, -c.p * c.p * c.p / T(27)));
  e.lemma("UV=-p/3", e.eq(U * V, -c.p / T(3)));
  e.lemma("t=U+V solves the depressed cubic", e.eq(t * t * t + c.p * t + c.q, T(0)));
  e.lemma("x1=t-a2/(3a3)", e.eq(c.x1, t - c.a2 / (T(3) * c.a3)));
  e.ensure("delta<0: x1 is the real root", c.root(e, c.x1));
}
template <class E> void c_one_real_root_1_0(E& e) { c_one_real_root<E, 1, 0>(e); }
template <class E> void c_one_real_root_2_3(E& e) { c_one_real_root<E, 2, 3>(e); }
template <class E> void c_one_real_root_m3_5(E& e) { c_one_real_root<E, -3, 5>(e); }
// discriminant = 0 exactly with p != 0: a simple and a double root
template <class E> void c_double_root(E& e) {
  using T = typename E::real;
  Cubic<E> c(e);
  e.require(e.eq(c.delta, T(0)));
  e.require(e.lt(T(1) / T(1000000), c.p * c.p));
  e.require(e.lt(T(1) / T(1000000), c.q * c.q));
  c.solve();
  e.ensure("delta=0: three roots announced", c.count_is(e, 3));
  e.ensure("delta=0: simple and double root are roots", c.all_roots(e));
}
// whatever the coefficients: the count is 0, 1 or 3, and 0 only for a negligible leading coefficient
template <class E> void c_count(E& e) {
  using T = typename E::real;
  Cubic<E> c(e);
  c.solve();
  e.ensure("count in {1,3} for a non-negligible leading coefficient", (c.nb == 1 || c.nb == 3) ? e.tru() : e.eq(T(0), T(1)));
}
VSYM_CONTRACT_B("cubic/p=0", c_p_zero, 200)
VSYM_CONTRACT_B("cubic/triple-root", c_triple_root, 200)
VSYM_CONTRACT_B("cubic/q=0", c_q_zero, 200)
VSYM_CONTRACT_B("cubic/one-real-root(Cardano)/a3=1,a2=0", c_one_real_root_1_0, 200)
VSYM_CONTRACT_B("cubic/one-real-root(Cardano)/a3=2,a2=3", c_one_real_root_2_3, 200)
VSYM_CONTRACT_B("cubic/one-real-root(Cardano)/a3=-3,a2=5", c_one_real_root_m3_5, 200)
VSYM_CONTRACT_B("cubic/double-root", c_double_root, 200)
VSYM_CONTRACT_B("cubic/count", c_count, 200)
int main(int argc, char** argv) { return vsym::driver_main(argc, argv); }
