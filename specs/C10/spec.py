"""C10 — cubic polynomial solver (E2): exact special cases and the Cardano one-real-root branch."""
import os

from engines.symvc.discharge import run_spec
from engines.cbmcc.run import Job, run_jobs

F = "include/TFEL/Math/General/CubicRoots.hxx"
NUMLIM = [{"name": "numeric_limits<T>::min()", "re": r"std::numeric_limits<T>::min\(\)", "sub": "DBL_MIN"},
          {"name": "numeric_limits<T>::epsilon()", "re": r"std::numeric_limits<T>::epsilon\(\)", "sub": "DBL_EPSILON"}]
BODIES = [
    dict(name="f_lambda", file=F, pattern=r"auto f = \[&a3, &a2, &a1, &a0\]\(const T x\)"),
    dict(name="df_lambda", file=F, pattern=r"auto df = \[&a3, &a2, &a1\]\(const T x\)"),
    dict(name="improve", file=F, pattern=r"static void improve\(\s*T& vp, const T a3, const T a2, const T a1, const T a0\)", rules=[
        {"name": "alias dropped", "re": r"using integer = unsigned short;", "sub": "", "min": 1, "max": 1},
        {"name": "drop the f lambda definition (extracted as a function)", "drop_block": r"auto f = \[&a3, &a2, &a1, &a0\]\(const T x\) \{", "min": 1},
        {"name": "drop the df lambda definition (extracted as a function)", "drop_block": r"auto df = \[&a3, &a2, &a1\]\(const T x\) \{", "min": 1},
        {"name": "calls of f", "re": r"(?<![\w_])f\((\w+)\)", "sub": r"f_rec(\1, a3, a2, a1, a0)", "min": 4},
        {"name": "calls of df", "re": r"(?<![\w_])df\((\w+)\)", "sub": r"df_lambda(\1, a3, a2, a1)", "min": 2},
        {"name": "value-initialised counter", "re": r"auto iter = integer\{\};", "sub": "integer iter = 0;", "min": 1, "max": 1},
        {"name": "typed constant", "re": r"constexpr integer iter_max = 50;", "sub": "const integer iter_max = 50;", "min": 1, "max": 1},
        {"name": "loop contract of the Newton loop", "re": r"while \(\(tfel::math::abs\(x1 - x\) > prec\) && \(iter < iter_max\)\) \{",
         "sub": ("while ((tfel_math_abs(x1 - x) > prec) && (iter < iter_max))\n  __CPROVER_assigns(x, x1, dfv, iter, g_arg1, g_val1, g_arg2, g_val2)\n"
                 "  __CPROVER_loop_invariant(iter <= iter_max)\n  __CPROVER_decreases(iter_max - iter)\n  {"), "min": 1, "max": 1},
    ] + NUMLIM + [{"name": "no lambda may remain", "forbid": r"\[&"}]),
]


def run(ctx):
    ctx.assume("leading coefficient and the non-zero invariants p, q are kept away from the solver's tiny-value thresholds (|.|^2 > 1e-6): over the reals those thresholds are exact only at zero",
               "cos/sin/atan2 are uninterpreted: the three-distinct-real-roots (trigonometric) branch is out of reach and not claimed; nor is `improve` (floating-point Newton refinement)",
               "accuracy for multiple roots is a rounding statement: only the exact-arithmetic root property is proved")
    run_spec(ctx, expect_min=8)
    # E1 part: the optional Newton refinement
    ctx.assume("CubicRoots::improve (E1, doubles bit-precise): 'the residual' is |P(x)| evaluated by Horner's scheme in double arithmetic, as the code evaluates it; the Newton iterates themselves are abstracted by the loop contract (any doubles)")
    tpl = os.path.join(ctx.spec_dir, "improve.c.in")
    ctx.assume("composition (paper lemma): improve's contract speaks of the code's own evaluations of the residual, f_lambda's contract identifies them with |P|; together: the refinement never increases the residual")
    run_jobs(ctx, [Job("f_lambda", tpl, bodies=BODIES, harness="h_f_lambda", needs=["f_lambda"], min_obligations=1, vacuity=False, backend="--cvc5", drop_checks=["--conversion-check"]),
                   Job("improve", tpl, bodies=BODIES, enforce="improve", loop_contracts=True, min_obligations=1, drop_checks=["--conversion-check"])])
