"""C10 — cubic polynomial solver (E2): exact special cases and the Cardano one-real-root branch."""
from engines.symvc.discharge import run_spec


def run(ctx):
    ctx.assume("leading coefficient and the non-zero invariants p, q are kept away from the solver's tiny-value thresholds (|.|^2 > 1e-6): over the reals those thresholds are exact only at zero",
               "cos/sin/atan2 are uninterpreted: the three-distinct-real-roots (trigonometric) branch is out of reach and not claimed; nor is `improve` (floating-point Newton refinement)",
               "accuracy for multiple roots is a rounding statement: only the exact-arithmetic root property is proved")
    run_spec(ctx, expect_min=8)
