"""C40 — a failed integration leaves the output state untouched: the C40:* ensures of specs/C39/integrate.c.in."""
import importlib.util
import os


def run(ctx):
    sp = importlib.util.spec_from_file_location("c39", os.path.join(ctx.verif, "specs/C39/spec.py"))
    m = importlib.util.module_from_spec(sp)
    sp.loader.exec_module(m)
    m.run_filtered(ctx, "C40")
