"""C40 — a failed integration leaves the output state untouched: the C40:* ensures of specs/C39/integrate.c.in."""
import importlib.util
import os


def run(ctx):
    sp = importlib.util.spec_from_file_location("c39", os.path.join(ctx.verif, "specs/C39/spec.py"))
    m = importlib.util.module_from_spec(sp)
    sp.loader.exec_module(m)
    m.run_filtered(ctx, "C40")

    wrappers(ctx)


D = "mfront/include/MFront/GenericBehaviour/"
INNER = {"name": "inner mfront::gb::integrate<Behaviour>(...) -> contract stub", "re": r"mfront::gb::integrate<Behaviour>\(\s*d,[^;]*\)", "sub": "inner_integrate()", "min": 1, "max": 1}
RESTORE = {"name": "restoration of the caller's buffers (pointer assignments)", "re": r"d\.(?:s0|s1)\.(?:gradients|thermodynamic_forces) = \w+_old;|d\.K = K_old;", "sub": "RESTORE_BUFFERS;", "min": 2}
TYPED = {"name": "typed result", "re": r"const auto r =", "sub": "const int r =", "min": 1, "max": 1}
NOCPP = {"name": "no unmapped C++ may remain", "forbid": r"tfel::|std::|convert<|View<|\bauto\b|d\.s1"}


def wrappers(ctx):
    """The three finite-strain wrappers of the generic interface: what they do after the inner integration."""
    from engines.cbmcc.run import Job, run_jobs
    from engines import replay as R
    ctx.assume("finite-strain wrappers: only the text from the inner mfront::gb::integrate call to the end of the function is under contract; what precedes it (conversion of the inputs, switch of d.s0/d.s1/d.K to local buffers: for every stress measure in the strain-measure wrappers, for non-Cauchy measures in the standard wrapper) is summarised by the stub of the inner call; the long conversion blocks are abstracted by one ghost write into the caller's buffer, possibly preceded by an error return")
    std_rules = [
        {"name": "text before the inner call dropped (summarised by the stub)", "re": r"^\{.*?(?=const auto r = mfront::gb::integrate<Behaviour>)", "sub": "{ ", "min": 1, "max": 1},
        INNER, TYPED, RESTORE,
        {"name": "stress measure enumerators", "re": r"StressMeasure::", "sub": "StressMeasure_", "min": 1},
        {"name": "conversion of the Cauchy stress into the caller's stress measure", "block_body": r"if \(\(r[^{]*\) && \(sm != StressMeasure_CAUCHY\)\) \{", "body": "CONVERT_STRESS_INTO_CALLER_S1;", "min": 1, "max": 1},
        NOCPP]
    strain_rules = [
        {"name": "text before the decoding of the request dropped (summarised by the stub)", "re": r"^\{.*?(?=const auto (?:Ke|bp) =)", "sub": "{ ", "min": 1, "max": 1},
        {"name": "typed request value (shadows the harness variable: the decoding is under test)", "re": r"const auto Ke =", "sub": "const real Ke =", "max": 1},
        {"name": "typed flags", "re": r"const auto (bp|bk) =", "sub": r"const int \1 =", "min": 2, "max": 2},
        INNER, TYPED, RESTORE,
        {"name": "prediction branch: conversion of the operator only", "block_body": r"if \(bp\) \{", "body": "CONVERT_OPERATOR_INTO_CALLER_K;", "min": 1, "max": 1},
        {"name": "integration branch: conversion of the stress, then of the operator if requested", "block_body": r"CONVERT_OPERATOR_INTO_CALLER_K; \} else \{", "body": "CONVERT_STRESS_INTO_CALLER_S1; if (bk) { CONVERT_OPERATOR_INTO_CALLER_K; }", "min": 1, "max": 1},
        NOCPP]
    tpl = os.path.join(ctx.spec_dir, "wrappers.c.in")
    jobs = []
    for name, f, pat, rules, defs in (
            ("finite_strain_integrate", D + "StandardFiniteStrainBehaviourIntegrate.hxx", r"int integrate\(mfront_gb_BehaviourData& d,\s*const tfel::material::OutOfBoundsPolicy p\)", std_rules, ["STANDARD"]),
            ("green_lagrange_strain_integrate", D + "GreenLagrangeStrainIntegrate.hxx", r"int integrate\(mfront_gb_BehaviourData& d,\s*const tfel::material::OutOfBoundsPolicy p\)", strain_rules, []),
            ("logarithmic_strain_integrate", D + "LogarithmicStrainIntegrate.hxx", r"int integrate\(mfront_gb_BehaviourData& d,\s*const tfel::material::OutOfBoundsPolicy p\)", strain_rules, [])):
        jobs.append(Job(name, tpl, bodies=[dict(name="tail", file=f, pattern=pat, rules=rules)], enforce="wrapper_tail", harness="h_wrapper_tail", defines=defs, min_obligations=4))

    def replay(ctx2, job, ob):
        srcs = ["src/Exception/ContractViolation.cxx", "src/Exception/TFELException.cxx", "src/Utilities/GenTypeCastError.cxx"]
        if job.name == "finite_strain_integrate":
            prog, cases = "C40_fs.cxx", (["ok", "0.5"], ["fail", "1"], ["ok", "1"])
        elif job.name == "green_lagrange_strain_integrate":
            prog, cases = "C39_gl.cxx", (["ok", "0.5", "0"], ["fail", "1", "0"], ["ok", "1", "99"], ["ok", "1", "-1"], ["ok", "1", "104"])
        else:
            return None  # the logarithmic strain wrapper has the same text; no mock for the Hencky handler
        bad = False
        outs = []
        for args in cases:
            ok, out = R.native(ctx2, prog, args, extra_flags="-w -I%s/mfront/include" % ctx2.repo, extra_src=srcs)
            outs.append(out.strip().replace("\n", " ; "))
            bad = bad or bool(ok)
        ob.detail += " | native replay (mock behaviour, PK2 stress measure): " + " || ".join(o for o in outs if "NOT-REPRODUCED" not in o)[-500:]
        return bad
    run_jobs(ctx, jobs, replay_fn=replay)
