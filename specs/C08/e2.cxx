// C08 (E2 part) — the linear solve used by every correction: TinyNonLinearSolverBase::solveLinearSystem, instantiated at the symbolic
// scalar. A refusal is only possible for a matrix singular to the default threshold 100*numeric_limits::min(); a success solves the system.
#include "vsym/traits.hxx"
// TinyNonLinearSolverBase static_asserts std::is_floating_point_v<NumericType>: the symbolic scalar declares itself one (this TU only)
namespace std { template <> struct is_floating_point<vsym::sym> : true_type {}; }
#include "TFEL/Math/tvector.hxx"
#include "TFEL/Math/tmatrix.hxx"
#include "TFEL/Math/NonLinearSolvers/TinyNonLinearSolverBase.hxx"
#include "vsym/driver.hxx"
using namespace tfel::math;

template <unsigned short N, typename T>
struct Solver : TinyNonLinearSolverBase<N, T, Solver<N, T>, StackAllocatedTinyNonLinearSolverWorkspace> {
  // the member is protected: forwarded unchanged
  template <class M, class V> bool linear_solve(M& m, V& v) const { return this->solveLinearSystem(m, v); }
};

template <unsigned short N, class E> void c_linear_solve(E& e) {
  using T = typename E::real;
  tmatrix<N, N, T> a;
  tvector<N, T> b;
  for (unsigned short i = 0; i != N; ++i) {
    b(i) = e.var("b" + std::to_string(i));
    for (unsigned short j = 0; j != N; ++j) a(i, j) = e.var("a" + std::to_string(i) + std::to_string(j));
  }
  const T det = (N == 1) ? a(0, 0) : a(0, 0) * a(N - 1, N - 1) - a(0, N - 1) * a(N - 1, 0);
  Solver<N, T> s;
  auto m = a;
  auto x = b;
  const bool ok = s.linear_solve(m, x);
  const T thr = T(100) * std::numeric_limits<T>::min();
  if (ok) {
    for (unsigned short i = 0; i != N; ++i) {
      T r = T(0);
      for (unsigned short j = 0; j != N; ++j) r = r + a(i, j) * x(j);
      e.ensure("success: (J x)_" + std::to_string(i) + " = f_" + std::to_string(i), e.eq(r, b(i)));
    }
  } else {
    e.ensure("a refusal means |det J| below the default threshold 100*numeric_limits::min() (no well-scaled jacobian is refused)", e.lt(-thr, det) && e.lt(det, thr));
  }
}
template <class E> void ls1(E& e) { c_linear_solve<1>(e); } VSYM_CONTRACT("solveLinearSystem/N=1", ls1)
template <class E> void ls2(E& e) { c_linear_solve<2>(e); } VSYM_CONTRACT("solveLinearSystem/N=2", ls2)
int main(int argc, char** argv) { return vsym::driver_main(argc, argv); }
