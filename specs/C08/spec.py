"""C08 — fixed-size nonlinear solvers never claim false convergence (E1, loop contracts)."""
import os

from engines.cbmcc.run import Job, run_jobs

FB = "include/TFEL/Math/NonLinearSolvers/TinyNonLinearSolverBase.ixx"
CHILD = {"name": "CRTP downcast dropped", "re": r"auto& child = static_cast<Child&>\(\*this\);", "sub": "", "min": 1, "max": 1}
HOOKS_ANY = {"name": "child.hook(...) -> contract stub", "re": r"\bchild\.(\w+)\(", "sub": r"child_\1("}
HOOKS = {"name": "child.hook(...) -> contract stub / function under contract", "re": r"\bchild\.(\w+)\(", "sub": r"child_\1(", "min": 3}
MEMBERS = {"name": "scalar members", "re": r"this->(iter|iterMax|is_delta_zeros_defined)\b", "sub": r"this_\1", "min": 2}
VEC = {"name": "in-place vector updates -> ghost version bump of the updated vector", "re": r"this->(zeros|delta_zeros) (?:\+=|-=|\*=) (?:this->delta_zeros|one_half);", "sub": r"VEC_UPDATE_\1;", "min": 1}
NOCPP = {"name": "no unmapped C++ may remain", "forbid": r"this->|child\.|static_cast|typename"}
BODIES = [
    dict(name="solveNonLinearSystem2", file=FB, pattern=r"::\s*solveNonLinearSystem2\(\)", rules=[CHILD, HOOKS, MEMBERS, VEC,
         {"name": "loop contract of the core loop", "re": r"while \(1\) \{|while \(true\) \{",
          "sub": ("while (1)\n  __CPROVER_assigns(converged, this_iter, this_is_delta_zeros_defined, GHOST_CORE)\n"
                  "  __CPROVER_loop_invariant(this_iter < this_iterMax && this_iter >= __CPROVER_loop_entry(this_iter))\n"
                  "  __CPROVER_decreases(this_iterMax - this_iter)\n  {"), "min": 1, "max": 1}, NOCPP]),
    dict(name="solveNonLinearSystem", file=FB, pattern=r"::\s*solveNonLinearSystem\(\)", rules=[CHILD,
         {"name": "core algorithm: the function under contract", "re": r"child\.solveNonLinearSystem2\(\)", "sub": "solveNonLinearSystem2()", "min": 1, "max": 1},
         HOOKS, 
         {"name": "iteration counter reset (value-initialised iteration_number_type)", "re": r"this->iter = typename TinyNonLinearSolverBase<\s*N, NumericType, Child, ExternalWorkSpace>::iteration_number_type\{\};", "sub": "this_iter = 0;", "min": 1, "max": 1},
         MEMBERS, VEC,
         {"name": "functional cast", "re": r"NumericType\((\d+)\)", "sub": r"((NumericType)\1)", "min": 1},
         {"name": "loop contract of the restart loop", "re": r"while \(this_iter != this_iterMax\) \{",
          "sub": ("while (this_iter != this_iterMax)\n  __CPROVER_assigns(this_iter, this_is_delta_zeros_defined, GHOST_ASSIGNS)\n"
                  "  __CPROVER_loop_invariant(this_iter <= this_iterMax && g_success_reported == 0 && g_failure_reported == 0)\n"
                  "  __CPROVER_decreases(this_iterMax - this_iter)\n  {"), "max": 1},
         {"name": "loop contract of the restart loop (do-while form, rewritten as while (first || cond))", "do_while": r"this_iter != this_iterMax",
          "contract": ("  __CPROVER_assigns(dw_first, this_iter, this_is_delta_zeros_defined, GHOST_ASSIGNS)\n"
                       "  __CPROVER_loop_invariant(this_iter <= this_iterMax && g_success_reported == 0 && g_failure_reported == 0)\n"
                       "  __CPROVER_decreases((dw_first ? 1 : 0) + this_iterMax - this_iter)")},
         {"name": "the restart loop carries a loop contract (either form)", "require": r"__CPROVER_loop_invariant"},
         NOCPP]),
]

D = "include/TFEL/Math/NonLinearSolvers/"
VASSIGN = {"name": "whole-vector / whole-matrix assignments -> ghost write counters", "re": r"this->(delta_zeros|fzeros|jacobian|fzeros_1|inv_jacobian|levmar_fzeros_1|levmar_jacobian_1) = [^;]*;", "sub": r"VASSIGN_\1;", "min": 1}
LOCALS = {"name": "local copies of vectors / matrices (values abstracted)", "re": r"(?:const )?auto (?:tmp_jacobian|tmp_fzeros|tjacobian|tfzeros) = this->\w+;", "sub": ""}
LINSOLVE = {"name": "linear solve on the members (overwrites jacobian and fzeros)", "re": r"child\.solveLinearSystem\(this->jacobian, this->fzeros\)", "sub": "child_solveLinearSystem()"}
LINSOLVE_TMP = {"name": "linear solve on local copies", "re": r"child\.solveLinearSystem\(tmp_jacobian, tmp_fzeros\)", "sub": "child_solveLinearSystem_tmp()"}
PDL = {"name": "Powell dog-leg post-processing of the correction", "re": r"applyPowellDogLegAlgorithm\([^;]*\);", "sub": "applyPowellDogLegAlgorithm_stub();"}
CNC_RULES = [CHILD, LOCALS, LINSOLVE, LINSOLVE_TMP, PDL, VASSIGN, HOOKS_ANY, NOCPP]
LM_RULES = [CHILD,
    {"name": "norm(...) of a vector -> arbitrary double", "re": r"norm\((?:this->fzeros|this->levmar_fzeros_1 \+ levmar_error2)\)", "sub": "norm_stub()", "min": 2, "max": 2},
    {"name": "vector temporary dropped", "re": r"const auto levmar_error2 =\s*eval\(this->levmar_jacobian_1 \* this->delta_zeros\);", "sub": "", "min": 1, "max": 1},
    {"name": "step back of the unknowns", "re": r"this->zeros -= this->delta_zeros;", "sub": "VEC_UPDATE_zeros;", "min": 1, "max": 1},
    VASSIGN,
    {"name": "scalar members", "re": r"this->(levmar_\w+)\b", "sub": r"this_\1", "min": 10},
    HOOKS_ANY, NOCPP]
BODIES += [
    dict(name="NewtonRaphson_computeNewCorrection", file=D + "TinyNewtonRaphsonSolver.ixx", pattern=r"computeNewCorrection\(\)", rules=CNC_RULES),
    dict(name="Broyden_computeNewCorrection", file=D + "TinyBroydenSolver.ixx", pattern=r"computeNewCorrection\(\)", rules=CNC_RULES),
    dict(name="Broyden2_computeNewCorrection", file=D + "TinyBroyden2Solver.ixx", pattern=r"computeNewCorrection\(\)", rules=CNC_RULES),
    dict(name="PowellDogLegNewtonRaphson_computeNewCorrection", file=D + "TinyPowellDogLegNewtonRaphsonSolver.ixx", pattern=r"::computeNewCorrection\(\)", rules=CNC_RULES),
    dict(name="PowellDogLegBroyden_computeNewCorrection", file=D + "TinyPowellDogLegBroydenSolver.ixx", pattern=r"computeNewCorrection\(\)", rules=CNC_RULES),
    dict(name="LevenbergMarquardt_computeNewCorrection", file=D + "TinyLevenbergMarquardtSolver.ixx", pattern=r"computeNewCorrection\(\)", rules=LM_RULES),
]
CNC = ["NewtonRaphson_computeNewCorrection", "Broyden_computeNewCorrection", "Broyden2_computeNewCorrection", "PowellDogLegNewtonRaphson_computeNewCorrection",
       "PowellDogLegBroyden_computeNewCorrection", "LevenbergMarquardt_computeNewCorrection"]


def run(ctx):
    ctx.assume("every CRTP hook of the Child class is an assumed-contract stub with an arbitrary outcome: computeResidual may fail, the norm may be any double (NaN, infinities), checkConvergence any answer, computeNewCorrection may fail and may move the unknowns (Levenberg-Marquardt steps back), processNewEstimate / rejectCurrentCorrection may move the unknowns; reportStandardIteration and checkConvergence (const members) do not",
               "vectors and matrices are abstracted: every statement that writes `zeros` bumps a ghost version, computeResidual records the version it evaluated; the numbers themselves (and 'Newton converges inside its basin of quadratic convergence', an analysis theorem) are out of reach",
               "ieee754::isfinite is replaced by CBMC's predicate (equality proved in C16)",
               "iteration_number_type is unsigned short (TinyNonLinearSolverBase.hxx)")
    tpl = os.path.join(ctx.spec_dir, "solver.c.in")
    jobs = [
        Job("solveNonLinearSystem2", tpl, bodies=BODIES, enforce="solveNonLinearSystem2", loop_contracts=True, needs=["solveNonLinearSystem2"], min_obligations=3),
        Job("solveNonLinearSystem", tpl, bodies=BODIES, enforce="solveNonLinearSystem", replace=["solveNonLinearSystem2"], loop_contracts=True, needs=["solveNonLinearSystem2", "solveNonLinearSystem"], min_obligations=3),
    ]
    for fn in CNC:
        jobs.append(Job(fn, tpl, bodies=BODIES, enforce=fn, needs=[fn], min_obligations=2))
    run_jobs(ctx, jobs)
    # E2 part: the linear solve shared by all corrections, on the unmodified template
    from engines.symvc.discharge import run_spec
    ctx.assume("E2 part: TinyNonLinearSolverBase::solveLinearSystem instantiated at the symbolic scalar for N = 1, 2 (closed forms of TinyMatrixSolve; larger N: C07)")
    run_spec(ctx, expect_min=4)
