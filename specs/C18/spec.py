"""C18 — fixed-size algorithms equal their standard counterparts (E2, sizes enumerated)."""
from engines.symvc.discharge import run_spec


def run(ctx):
    ctx.assume("each N is a separate template instantiation: sizes are enumerated (quick: 0..12, 16, 17 for the data-independent algorithms, 0..4 for min/max_element and equal; thorough adds 13..15, 24, 31..33, 48, 63, 64 and 5..8), each size for all element values and all user operations (uninterpreted functions with a call log)",
               "min/max_element and equal: every outcome of every comparison is explored (all tie patterns); 9..64 for these three are NOT covered (2^(N-1) paths)",
               "the oracle is libstdc++'s std:: algorithm run on the same symbolic data")
    run_spec(ctx, flags="-DVERIF_THOROUGH" if ctx.thorough else "", expect_min=300, per_timeout=120)
