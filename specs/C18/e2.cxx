// C18 — fixed-size algorithms = std counterparts (E2). Elements are distinct symbols, operations are uninterpreted functions with a
// call log: the fsalgo algorithm and the std algorithm run on the same symbolic data; results, written ranges, returned iterators
// and the sequence of user calls must coincide. Each size N is a separate instantiation (enumerated).
#include "vsym/traits.hxx"
#include <algorithm>
#include <array>
#include <list>
#include <numeric>
#include <vector>
#include "TFEL/FSAlgorithm/FSAlgorithm.hxx"
#include "vsym/driver.hxx"
namespace fs = tfel::fsalgo;

template <class E> auto verdict(E& e, const bool b) { using T = typename E::real; return b ? e.tru() : e.eq(T(0), T(1)); }
template <class T> bool same(const T& a, const T& b) {
  if constexpr (std::is_same_v<T, vsym::sym>) return vsym::ref(a) == vsym::ref(b);
  else return a == b || (a != a && b != b);
}
template <class C> bool same_range(const C& a, const C& b) {
  auto i = a.begin(); auto j = b.begin();
  for (; i != a.end() && j != b.end(); ++i, ++j) if (!same(*i, *j)) return false;
  return i == a.end() && j == b.end();
}
// uninterpreted operations (on doubles in replay mode: fixed generic formulas) with a log of their calls
template <class T> struct Ops {
  std::vector<T> log;
  T un(const T& a) { log.push_back(a); if constexpr (std::is_same_v<T, vsym::sym>) return vsym::mk_uf("u", {a}); else return 3 * a + 1; }
  T bin(const T& a, const T& b) { log.push_back(a); log.push_back(b); if constexpr (std::is_same_v<T, vsym::sym>) return vsym::mk_uf("b", {a, b}); else return a - 2 * b + a * b; }
};
template <unsigned N, class E> std::array<typename E::real, N + 1> sym_array(E& e, const char* n) {
  std::array<typename E::real, N + 1> a;  // one spare element: the algorithms must not touch it
  for (unsigned i = 0; i <= N; ++i) a[i] = e.var(std::string(n) + std::to_string(i));
  return a;
}
template <unsigned N, class E> void c_straight(E& e) {
  using T = typename E::real;
  const auto x = sym_array<N>(e, "x");
  const auto y = sym_array<N>(e, "y");
  const T v0 = e.var("v");
  {  // copy
    auto a = y, b = y;
    auto ra = fs::copy<N>::exe(x.begin(), a.begin());
    auto rb = std::copy(x.begin(), x.begin() + N, b.begin());
    e.ensure("copy: written range and the element after it", verdict(e, same_range(a, b)));
    e.ensure("copy: returned iterator", verdict(e, (ra - a.begin()) == (rb - b.begin())));
    std::list<T> la(y.begin(), y.end()), lb(y.begin(), y.end());
    fs::copy<N>::exe(x.begin(), la.begin());
    std::copy(x.begin(), x.begin() + N, lb.begin());
    e.ensure("copy to a non-random-access range", verdict(e, same_range(la, lb)));
  }
  {  // fill
    auto a = y, b = y;
    fs::fill<N>::exe(a.begin(), v0);
    std::fill(b.begin(), b.begin() + N, v0);
    e.ensure("fill", verdict(e, same_range(a, b)));
  }
  {  // transform, unary and binary, with the order of the user calls
    auto a = y, b = y;
    Ops<T> oa, ob;
    auto ra = fs::transform<N>::exe(x.begin(), a.begin(), [&oa](const T& t) { return oa.un(t); });
    auto rb = std::transform(x.begin(), x.begin() + N, b.begin(), [&ob](const T& t) { return ob.un(t); });
    e.ensure("transform(unary): results", verdict(e, same_range(a, b)));
    e.ensure("transform(unary): returned iterator and call sequence", verdict(e, (ra - a.begin()) == (rb - b.begin()) && same_range(oa.log, ob.log)));
    auto c = y, d = y;
    Ops<T> oc, od;
    fs::transform<N>::exe(x.begin(), y.begin(), c.begin(), [&oc](const T& s, const T& t) { return oc.bin(s, t); });
    std::transform(x.begin(), x.begin() + N, y.begin(), d.begin(), [&od](const T& s, const T& t) { return od.bin(s, t); });
    e.ensure("transform(binary): results and call sequence", verdict(e, same_range(c, d) && same_range(oc.log, od.log)));
  }
  {  // accumulate / inner_product: same association order (left fold)
    Ops<T> oa, ob;
    const T ra = fs::accumulate<N>::exe(x.begin(), v0, [&oa](const T& s, const T& t) { return oa.bin(s, t); });
    const T rb = std::accumulate(x.begin(), x.begin() + N, v0, [&ob](const T& s, const T& t) { return ob.bin(s, t); });
    e.ensure("accumulate(op): same left fold and call sequence", verdict(e, same(ra, rb) && same_range(oa.log, ob.log)));
    e.ensure("accumulate(+) = std::accumulate", e.eq(fs::accumulate<N>::exe(x.begin(), v0), std::accumulate(x.begin(), x.begin() + N, v0)));
    e.ensure("inner_product = std::inner_product", e.eq(fs::inner_product<N>::exe(x.begin(), y.begin(), v0), std::inner_product(x.begin(), x.begin() + N, y.begin(), v0)));
    Ops<T> oc, od, oe, of;
    const T rc = fs::inner_product<N>::exe(x.begin(), y.begin(), v0, [&oc](const T& s, const T& t) { return oc.bin(s, t); }, [&oe](const T& s, const T& t) { return oe.bin(s, t); });
    const T rd = std::inner_product(x.begin(), x.begin() + N, y.begin(), v0, [&od](const T& s, const T& t) { return od.bin(s, t); }, [&of](const T& s, const T& t) { return of.bin(s, t); });
    e.ensure("inner_product(op1,op2): same value and call sequences", verdict(e, same(rc, rd) && same_range(oc.log, od.log) && same_range(oe.log, of.log)));
  }
  {  // for_each / generate / iota
    Ops<T> oa, ob;
    auto fa = [&oa](const T& t) { oa.un(t); };
    auto fb = [&ob](const T& t) { ob.un(t); };
    fs::for_each<N>::exe(x.begin(), fa);
    std::for_each(x.begin(), x.begin() + N, fb);
    e.ensure("for_each: call sequence", verdict(e, same_range(oa.log, ob.log)));
    auto a = y, b = y;
    int ka = 0, kb = 0;
    fs::generate<N>::exe(a.begin(), [&ka, &x]() { return x[ka++]; });
    std::generate(b.begin(), b.begin() + N, [&kb, &x]() { return x[kb++]; });
    e.ensure("generate: results and number of calls", verdict(e, same_range(a, b) && ka == kb));
    auto c = y, d = y;
    fs::iota<N>::exe(c.begin(), v0);
    std::iota(d.begin(), d.begin() + N, v0);
    for (unsigned i = 0; i <= N; ++i) e.ensure("iota[" + std::to_string(i) + "]", e.eq(c[i], d[i]));
  }
  {  // swap_ranges
    auto a = x, b = y, c = x, d = y;
    auto ra = fs::swap_ranges<N>::exe(a.begin(), b.begin());
    auto rb = std::swap_ranges(c.begin(), c.begin() + N, d.begin());
    e.ensure("swap_ranges: both ranges, spare elements and returned iterator", verdict(e, same_range(a, c) && same_range(b, d) && (ra - b.begin()) == (rb - d.begin())));
  }
}
// algorithms whose control flow depends on the data: every outcome of every comparison is a path
template <unsigned N, class E> void c_compare(E& e) {
  using T = typename E::real;
  const auto x = sym_array<N>(e, "x");
  const auto y = sym_array<N>(e, "y");
  if constexpr (N >= 1) {
    const auto ma = fs::max_element<N>::exe(x.begin());
    const auto mb = std::max_element(x.begin(), x.begin() + N);
    e.ensure("max_element: same position (first maximal element)", verdict(e, ma == mb));
    const auto na = fs::min_element<N>::exe(x.begin());
    const auto nb = std::min_element(x.begin(), x.begin() + N);
    e.ensure("min_element: same position (first minimal element)", verdict(e, na == nb));
    std::list<T> l(x.begin(), x.begin() + N);
    const auto la = fs::max_element<N>::exe(l.begin());
    const auto lb = std::max_element(l.begin(), l.end());
    e.ensure("max_element on a non-random-access range", verdict(e, la == lb));
  }
  const bool ea = fs::equal<N>::exe(x.begin(), y.begin());
  const bool eb = std::equal(x.begin(), x.begin() + N, y.begin());
  e.ensure("equal", verdict(e, ea == eb));
}
// equal with a user predicate (a strict order here: differs from operator== on every pair), and a counting predicate for the call sequence
template <unsigned N, class E> void c_equal_pred(E& e) {
  using T = typename E::real;
  const auto x = sym_array<N>(e, "x");
  const auto y = sym_array<N>(e, "y");
  std::vector<T> la, lb;
  const bool ea = fs::equal<N>::exe(x.begin(), y.begin(), [&la](const T& a, const T& b) { la.push_back(a); la.push_back(b); return a < b; });
  const bool eb = std::equal(x.begin(), x.begin() + N, y.begin(), [&lb](const T& a, const T& b) { lb.push_back(a); lb.push_back(b); return a < b; });
  const bool same = same_range(la, lb);
  e.ensure("equal(pred): same verdict", verdict(e, ea == eb));
  e.ensure("equal(pred): the predicate is applied to the same pairs in the same order", verdict(e, same));
}
#define P(N) template <class E> void p_##N(E& e) { c_equal_pred<N>(e); } VSYM_CONTRACT_B("N=" #N "/equal(pred)", p_##N, 4000)
#define S(N) template <class E> void s_##N(E& e) { c_straight<N>(e); } VSYM_CONTRACT("N=" #N "/copy-fill-transform-accumulate-inner_product-for_each-generate-iota-swap_ranges", s_##N)
#define Q(N) template <class E> void q_##N(E& e) { c_compare<N>(e); } VSYM_CONTRACT_B("N=" #N "/min_element-max_element-equal", q_##N, 4000)
S(0) S(1) S(2) S(3) S(4) S(5) S(6) S(7) S(8) S(9) S(10) S(11) S(12) S(16) S(17)
Q(0) Q(1) Q(2) Q(3) Q(4)
P(0) P(1) P(2) P(3) P(4) P(5) P(6)
#ifdef VERIF_THOROUGH
S(13) S(14) S(15) S(24) S(31) S(32) S(33) S(48) S(63) S(64)
Q(5) Q(6) Q(7) Q(8)
P(7) P(8) P(12) P(16)
#endif
int main(int argc, char** argv) { return vsym::driver_main(argc, argv); }
