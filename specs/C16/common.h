#include "prelude.h"
#include <math.h> /* FP_NAN, FP_INFINITE, FP_ZERO, FP_SUBNORMAL, FP_NORMAL of the platform */
/* std::bit_cast<To,From>(v): object-representation pun (assumed contract: C++20 [bit.cast]) */
#define BITCAST(To, From, v) (((union { From f; To t; }){.f = (v)}).t)
typedef struct { uint64_t m; uint16_t se; } ld_image; /* x87 80-bit extended, little endian: bytes 0-7 significand, 8-9 sign+exponent */
int g_contract_violation; /* ghost: tfel::reportContractViolation reached */
static void tfel_reportContractViolation(const char* msg) { (void)msg; g_contract_violation = 1; }
/* field-level IEEE-754 definitions (oracle a) */
#define F_E(i) (((i) >> 23) & 0xffu)
#define F_F(i) ((i) & 0x7fffffu)
#define D_E(i) (((i) >> 52) & 0x7ffull)
#define D_F(i) ((i) & 0xfffffffffffffull)
#define CLASS_OF(e, emax, f) ((e) == 0 ? ((f) == 0 ? FP_ZERO : FP_SUBNORMAL) : ((e) == (emax) ? ((f) == 0 ? FP_INFINITE : FP_NAN) : FP_NORMAL))
/* x87: table read from the platform libc at check time (ldtable.h, generated) */
#include "ldtable.h"
#define L_E(x) ((x).se & 0x7fff)
#define L_MSB(x) ((int)((x).m >> 63))
#define L_FZ(x) ((((x).m) << 1) == 0)
#define L_ECLS(x) (L_E(x) == 0 ? 0 : (L_E(x) == 0x7fff ? 2 : 1))
#define L_CLASS(x) (libc_ld_class[L_ECLS(x)][L_MSB(x)][L_FZ(x)])
