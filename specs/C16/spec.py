"""C16 — IEEE-754 classification bit-exact for every bit pattern (E1, loop-free => complete)."""
import os
import re
import subprocess

from engines.cbmcc.run import Job, run_jobs
from engines.cbmcc import extract as X
from engines.common import Obligation, UNDECIDED

F = "include/TFEL/Math/General/IEEE754.ixx"
R32 = {"name": "bit_cast<uint32_t>", "re": r"std::bit_cast<uint32_t>\(x\)", "sub": "verif_bits32(x)", "min": 1}
R64 = {"name": "bit_cast<uint64_t>", "re": r"std::bit_cast<uint64_t>\(x\)", "sub": "verif_bits64(x)", "min": 1}
L_RULES = [
    {"name": "endianness-lambda -> extracted function le_probe", "re": r"auto le = \[\] \{.*?\}\(\);", "sub": "const bool le = le_probe();", "min": 1, "max": 1},
    {"name": "bit_cast<internal_representation,long double>", "re": r"std::bit_cast<internal_representation, long double>\(x\)",
     "sub": "BITCAST(struct internal_representation, ld_image, x)", "min": 1},
]
LE_RULES = [{"name": "bit_cast<char_array,uint32_t>", "re": r"std::bit_cast<char_array, std::uint32_t>\(0x01020304\)",
             "sub": "BITCAST(struct char_array, uint32_t, 0x01020304)", "min": 1}]
R_LD_CAST = {"name": "bit_cast<struct, long double>", "re": r"std::bit_cast<(\w+), long double>\(x\)", "sub": r"BITCAST(struct \1, ld_image, x)"}
LD = r"#elif LDBL_MANT_DIG == 64 && LDBL_MAX_EXP == 16384\s+TFEL_HOST_DEVICE inline int fpclassify\(const long double x\) noexcept"
BODIES = [
    dict(name="fpclassify_f", file=F, pattern=r"constexpr int fpclassify\(const float x\) noexcept", rules=[R32]),
    dict(name="fpclassify_d", file=F, pattern=r"constexpr int fpclassify\(const double x\) noexcept", rules=[R64]),
    dict(name="le_probe", file=F, pattern=LD + r".*?auto le = \[\]", rules=LE_RULES),
    dict(name="fpclassify_l", file=F, pattern=LD, rules=L_RULES),
    dict(name="isnan_f", file=F, pattern=r"constexpr bool isnan\(const float x\) noexcept"),
    dict(name="isnan_d", file=F, pattern=r"constexpr bool isnan\(const double x\) noexcept"),
    dict(name="isnan_l", file=F, pattern=r"TFEL_HOST_DEVICE inline bool isnan\(const long double x\) noexcept", rules=[R_LD_CAST]),
    dict(name="isfinite_f", file=F, pattern=r"constexpr bool isfinite\(const float x\) noexcept"),
    dict(name="isfinite_d", file=F, pattern=r"constexpr bool isfinite\(const double x\) noexcept"),
    dict(name="isfinite_l", file=F, pattern=r"TFEL_HOST_DEVICE inline bool isfinite\(const long double x\) noexcept", rules=[R_LD_CAST]),
]
JOBS = []
for w in "fdl":
    JOBS.append(Job("fpclassify_" + w, "ieee754.c.in", enforce="fpclassify_" + w, bodies=BODIES, min_obligations=3 if w == "l" else 5,
                    expect_labels=["class-as-platform-libc-table"] if w == "l" else ["class-by-ieee754-fields", "nan-iff-cbmc-isnan"]))
    for fn in ("isnan_", "isfinite_"):
        JOBS.append(Job(fn + w, "ieee754.c.in", enforce=fn + w, replace=["fpclassify_" + w], bodies=BODIES, min_obligations=1 if w == "l" else 2))


def run(ctx):
    # which long double variant does the platform compile?
    p = subprocess.run("echo | g++ -dM -E -x c++ - | grep -E 'LDBL_MANT_DIG|LDBL_MAX_EXP '", shell=True, capture_output=True, text=True)
    if "__LDBL_MANT_DIG__ 64" not in p.stdout:
        ctx.undecided("C16/platform", "long double is not the x87 80-bit format here: " + p.stdout)
        return
    ctx.static_facts.append("g++ -dM -E: __LDBL_MANT_DIG__ == 64, so the `LDBL_MANT_DIG == 64 && LDBL_MAX_EXP == 16384` variant of fpclassify(long double) is the one compiled; that variant is the one extracted")
    # libc class table
    exe = os.path.join(ctx.out, "libc_table")
    p = subprocess.run("gcc -O0 %s -o %s -lm && %s > %s" % (os.path.join(ctx.spec_dir, "libc_table.c"), exe, exe, os.path.join(ctx.out, "ldtable.h")),
                       shell=True, capture_output=True, text=True)
    if p.returncode != 0:
        ctx.undecided("C16/libc-table", "cannot read the class table from the platform libc: " + p.stderr[-300:])
        return
    ctx.static_facts.append("x87 class table read from glibc __fpclassifyl at check time (12 rows, each uniform over its representatives): " +
                            " ".join(open(os.path.join(ctx.out, "ldtable.h")).read().split()[12:]))
    # supporting static fact: the extracted bodies contain no floating-point operation (so -ffast-math cannot alter them)
    ok = True
    for b in BODIES:
        if b["name"] == "le_probe":
            continue
        try:
            raw, _ = X.locate(ctx.repo, b["file"], b["pattern"])
        except X.ExtractionDrift:
            continue
        body = X.strip_comments(raw)
        uses = re.findall(r"\bx\b", body)
        allowed = len(re.findall(r"bit_cast<[^>]*>\(x\)|fpclassify\(x\)|u = \{x\}", body))
        if len(uses) != allowed or re.search(r"\d\.\d|\b(float|double)\s+\w+\s*=", body):
            ok = False
            ctx.undecided("C16/static/no-fp-op/" + b["name"], "the body uses x outside bit_cast/fpclassify(x) or declares a floating-point local: -ffast-math independence cannot be argued syntactically")
    if ok:
        ctx.static_facts.append("in every extracted body the argument x occurs only as the operand of std::bit_cast or as the argument of fpclassify(x), and no floating-point literal or local exists: no floating-point operation for -ffast-math/-Ofast to rewrite (supporting static fact, not an obligation)")
    ctx.assume("std::bit_cast = object-representation pun (union); long double identified with its x87 image {uint64 significand; uint16 sign+exponent} (little endian) - CBMC's own long double model is not relied on",
               "x87 non-canonical classes are specified by the table read from the platform libc at check time",
               "compiler correctness under -ffast-math for integer-only code (trusted)")
    ctx.notes.append("harness inputs are the raw bit patterns (uint32/uint64/{uint64,uint16}); loop-free, so the SAT run is complete over all 2^32 / 2^64 / 2^80 patterns")
    run_jobs(ctx, JOBS, replay_fn=replay)


def replay(ctx, job, ob):
    from engines import replay as R
    ins = ob.inputs or {}
    if "in_bits" in ins:
        args = [job.name, R.bits_hex(ins["in_bits"]["binary"])]
    elif "in_x.m" in ins:
        args = [job.name, R.bits_hex(ins["in_x.m"]["binary"]), R.bits_hex(ins["in_x.se"]["binary"])]
    else:
        return None
    ok, out = R.native(ctx, "C16.cxx", args)
    ob.detail += " | native replay: " + out.strip().replace("\n", " ; ")[-300:]
    return ok
