"""C25 — homogenisation bounds and schemes (E2, phase count bounded)."""
from engines.symvc.discharge import run_spec


def run(ctx):
    ctx.assume("isotropic phases with K_i > 0, mu_i > 0, fractions >= 0 summing to one (the last fraction is 1 minus the others); space dimension 3",
               "Voigt and Reuss estimates of the isotropic moduli are the arithmetic and harmonic means (written in the spec: the tensor-valued computeVoigtStiffness / computeReussStiffness go through a 6x6 inversion and are not under contract)",
               "bounded in the number of phases: 2 (both tiers; the 3-phase contract is written, VERIF_EXPERIMENTAL, but its ordering obligations time out and it is NOT claimed); 3-5 phases, spheroidal / ellipsoidal Eshelby and localisation tensors (acos/atan, numerical integration), the self-consistent iteration, PCW and oriented schemes are NOT covered",
               "Mori-Tanaka with the softest / stiffest matrix = Hashin-Shtrikman lower / upper bound is written (specs/C25/e2.cxx, VERIF_EXPERIMENTAL) but NOT claimed: the bulk-modulus identity and two denominator obligations stay undecided within the solver budget")
    run_spec(ctx, flags="-DVERIF_THOROUGH" if ctx.thorough else "", expect_min=6, per_timeout=900 if ctx.thorough else 60)
