// C25 — homogenisation bounds (E2): ordering Reuss <= Hashin-Shtrikman lower <= Hashin-Shtrikman upper <= Voigt for isotropic phases.
#include "vsym/traits.hxx"
#include <span>
#include <vector>
#include "TFEL/Math/st2tost2.hxx"
#include "TFEL/Material/IsotropicModuli.hxx"
#include "TFEL/Material/LinearHomogenizationBounds.hxx"
#include "TFEL/Material/LinearHomogenizationSchemes.hxx"
#include "vsym/driver.hxx"
using namespace tfel::material::homogenization::elasticity;

template <unsigned N, class E> void c_hs_bounds(E& e) {
  using T = typename E::real;
  std::vector<T> f(N), K(N), mu(N);
  T sum = T(0);
  for (unsigned i = 0; i < N; ++i) {
    K[i] = e.var("K" + std::to_string(i));
    mu[i] = e.var("mu" + std::to_string(i));
    e.require(e.lt(T(0), K[i]));
    e.require(e.lt(T(0), mu[i]));
    if (i + 1 < N) {
      f[i] = e.var("f" + std::to_string(i));
      e.require(e.le(T(0), f[i]));
      sum = sum + f[i];
    }
  }
  f[N - 1] = T(1) - sum;  // fractions sum to one
  e.require(e.le(T(0), f[N - 1]));
  const auto b = computeIsotropicHashinShtrikmanBounds<3u, T>(std::span<T>(f), std::span<T>(K), std::span<T>(mu));
  const T KL = b.first.first, GL = b.first.second, KU = b.second.first, GU = b.second.second;
  // Voigt and Reuss estimates of the isotropic moduli (arithmetic and harmonic means)
  T KV = T(0), GV = T(0), iKR = T(0), iGR = T(0);
  for (unsigned i = 0; i < N; ++i) {
    KV = KV + f[i] * K[i];
    GV = GV + f[i] * mu[i];
    iKR = iKR + f[i] / K[i];
    iGR = iGR + f[i] / mu[i];
  }
  e.ensure("bulk: Reuss <= HS lower (1 <= K_L . sum f_i/K_i)", e.le(T(1), KL * iKR));
  e.ensure("bulk: HS lower <= HS upper", e.le(KL, KU));
  e.ensure("bulk: HS upper <= Voigt", e.le(KU, KV));
  e.ensure("shear: Reuss <= HS lower (1 <= G_L . sum f_i/mu_i)", e.le(T(1), GL * iGR));
  e.ensure("shear: HS lower <= HS upper", e.le(GL, GU));
  e.ensure("shear: HS upper <= Voigt", e.le(GU, GV));
}

// spherical inclusions (KGModuli overloads): Mori-Tanaka with the softer (stiffer) phase as matrix = lower (upper) HS bound;
// dilute and Mori-Tanaka reduce to the matrix at zero inclusion fraction, Mori-Tanaka to the inclusion at fraction one
template <class E> void c_sphere_schemes(E& e) {
  using T = typename E::real;
  using namespace tfel::material;
  const T K0 = e.var("K0"), G0 = e.var("G0"), K1 = e.var("K1"), G1 = e.var("G1"), f = e.var("f");
  for (const T& v : {K0, G0, K1, G1}) e.require(e.lt(T(0), v));
  e.require(e.le(T(0), f) && e.le(f, T(1)));
  // phase 1 at least as stiff as phase 0 in both moduli (well-ordered phases: then the HS bounds are attained by Mori-Tanaka)
  e.require(e.le(K0, K1) && e.le(G0, G1));
  const KGModuli<T> m0(K0, G0), m1(K1, G1);
  std::vector<T> ff = {T(1) - f, f}, KK = {K0, K1}, GG = {G0, G1};
  const auto b = computeIsotropicHashinShtrikmanBounds<3u, T>(std::span<T>(ff), std::span<T>(KK), std::span<T>(GG));
  const auto lo = computeSphereMoriTanakaScheme<T>(m0, f, m1);          // soft matrix, stiff inclusions in fraction f
  const auto up = computeSphereMoriTanakaScheme<T>(m1, T(1) - f, m0);   // stiff matrix, soft inclusions in fraction 1-f
  e.ensure("Mori-Tanaka(softest matrix) = HS lower: bulk", e.eq(lo.kappa, b.first.first));
  e.ensure("Mori-Tanaka(softest matrix) = HS lower: shear", e.eq(lo.mu, b.first.second));
  e.ensure("Mori-Tanaka(stiffest matrix) = HS upper: bulk", e.eq(up.kappa, b.second.first));
  e.ensure("Mori-Tanaka(stiffest matrix) = HS upper: shear", e.eq(up.mu, b.second.second));
}
template <class E> void c_zero_fraction(E& e) {
  using T = typename E::real;
  using namespace tfel::material;
  const T K0 = e.var("K0"), G0 = e.var("G0"), K1 = e.var("K1"), G1 = e.var("G1");
  for (const T& v : {K0, G0, K1, G1}) e.require(e.lt(T(0), v));
  const KGModuli<T> m0(K0, G0), m1(K1, G1);
  const auto d0 = computeSphereDiluteScheme<T>(m0, T(0), m1);
  const auto t0 = computeSphereMoriTanakaScheme<T>(m0, T(0), m1);
  const auto t1 = computeSphereMoriTanakaScheme<T>(m0, T(1), m1);
  e.ensure("dilute(f=0) = matrix", e.eq(d0.kappa, K0) && e.eq(d0.mu, G0));
  e.ensure("Mori-Tanaka(f=0) = matrix", e.eq(t0.kappa, K0) && e.eq(t0.mu, G0));
  e.ensure("Mori-Tanaka(f=1) = inclusion", e.eq(t1.kappa, K1) && e.eq(t1.mu, G1));
}
template <class E> void c2(E& e) { c_hs_bounds<2>(e); }
VSYM_CONTRACT_B("HashinShtrikman/2-phases", c2, 200)
#ifdef VERIF_EXPERIMENTAL  /* undecided within the solver budget (nested moduli conversions): not part of the claim */
VSYM_CONTRACT_P("spheres/MoriTanaka=HashinShtrikman", c_sphere_schemes, 200)
#endif
VSYM_CONTRACT_B("spheres/zero-and-unit-fraction", c_zero_fraction, 200)
#ifdef VERIF_EXPERIMENTAL  /* 3 phases: ~100 paths whose ordering obligations mostly time out (600 s each): not part of the claim */
template <class E> void c3(E& e) { c_hs_bounds<3>(e); }
VSYM_CONTRACT_B("HashinShtrikman/3-phases", c3, 400)
#endif
int main(int argc, char** argv) { return vsym::driver_main(argc, argv); }
