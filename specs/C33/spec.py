"""C33 — Unicode mangling: the table of supported characters (E1, complete over the table); the substitution loops are not under contract."""
import os
import re

from engines.cbmcc.run import Job, run_jobs
from engines.cbmcc import extract as X

F = "src/UnicodeSupport/UnicodeSupport.cxx"


def run(ctx):
    ctx.assume("the initializer of the static table in getSupportedUnicodeCharactersDescriptions() is extracted textually, entry by entry (the \\\\uXXXX escapes are kept and decoded to UTF-8 by the C front end of goto-cc, as the C++ compiler does)",
               "consequence (paper lemma, trusted): the supported characters being distinct single UTF-8 scalars (self-synchronising code) and the mangled names being distinct, equally long, pure ASCII words, mangling is injective on the table and substitution order does not matter",
               "NOT under contract: the replace_all loop of getMangledString and tfel-unicode-filt (std::string code); 'reversible for every input without the mangling prefix' is therefore not claimed beyond the table facts it rests on")
    try:
        raw, line = X.locate(ctx.repo, F, r"static std::vector<UnicodeCharacterDescription> ucds")
    except X.ExtractionDrift as e:
        ctx.undecided("C33/table", "extraction drift: %s" % e)
        return
    body = X.strip_comments(raw)
    ents = re.findall(r'\{\s*("(?:\\.|[^"\\])*")\s*,\s*("(?:\\.|[^"\\])*")\s*,\s*(?:"(?:\\.|[^"\\])*"\s*)+,\s*UnicodeCharacterCategory::\w+\s*\}', body)
    n_braces = len(re.findall(r"UnicodeCharacterCategory::", body))
    if not ents or len(ents) != n_braces:
        ctx.undecided("C33/table", "extraction drift: %d entries parsed, %d category tags in the initializer" % (len(ents), n_braces))
        return
    tpl_src = open(os.path.join(ctx.spec_dir, "table.c.in")).read().replace("//@BODY table\n", "\n".join("  {%s, %s}," % e for e in ents) + "\n")
    tpl = os.path.join(ctx.out, "table.c.in")
    open(tpl, "w").write(tpl_src)
    ctx.functions.append({"name": "getSupportedUnicodeCharactersDescriptions (table initializer)", "file": F, "line": line, "entries": len(ents)})
    d = ["TABLE_SIZE=%d" % len(ents)]
    jobs = [Job("entries", tpl, harness="h_entries", unwind=40, object_bits=12, vacuity=False, min_obligations=4, defines=d, drop_checks=["--conversion-check"]),
            Job("pairs", tpl, harness="h_pairs", unwind=40, object_bits=12, vacuity=False, min_obligations=2, defines=d, drop_checks=["--conversion-check"]),
            Job("size", tpl, harness="h_size", vacuity=False, min_obligations=1, defines=d)]
    run_jobs(ctx, jobs)
