/*! Spec vocabulary shared by the E2 contracts: the 3x3 matrix meaning of TFEL's tensor objects.
 *  Written once, generic in the scalar (sym for VC generation, double for replay). */
#ifndef VERIF_SPEC_MANDEL_HXX
#define VERIF_SPEC_MANDEL_HXX
#include <array>
#include <string>
#include <vector>
#include "TFEL/Math/stensor.hxx"
#include "TFEL/Math/tensor.hxx"
#include "TFEL/Math/tmatrix.hxx"
#include "TFEL/Math/tvector.hxx"

namespace spec {
  template <typename T> using mat3 = std::array<std::array<T, 3>, 3>;
  template <typename T> using vec3 = std::array<T, 3>;

  template <typename T> mat3<T> zero3() { mat3<T> m; for (auto& r : m) for (auto& x : r) x = T(0); return m; }
  template <typename T> mat3<T> id3() { auto m = zero3<T>(); for (int i = 0; i < 3; ++i) m[i][i] = T(1); return m; }
  template <typename T> mat3<T> mul(const mat3<T>& a, const mat3<T>& b) {
    auto m = zero3<T>();
    for (int i = 0; i < 3; ++i) for (int j = 0; j < 3; ++j) for (int k = 0; k < 3; ++k) m[i][j] = m[i][j] + a[i][k] * b[k][j];
    return m;
  }
  template <typename T> mat3<T> add(const mat3<T>& a, const mat3<T>& b) { mat3<T> m; for (int i = 0; i < 3; ++i) for (int j = 0; j < 3; ++j) m[i][j] = a[i][j] + b[i][j]; return m; }
  template <typename T> mat3<T> sub(const mat3<T>& a, const mat3<T>& b) { mat3<T> m; for (int i = 0; i < 3; ++i) for (int j = 0; j < 3; ++j) m[i][j] = a[i][j] - b[i][j]; return m; }
  template <typename T> mat3<T> scale(const T& s, const mat3<T>& a) { mat3<T> m; for (int i = 0; i < 3; ++i) for (int j = 0; j < 3; ++j) m[i][j] = s * a[i][j]; return m; }
  template <typename T> mat3<T> tr(const mat3<T>& a) { mat3<T> m; for (int i = 0; i < 3; ++i) for (int j = 0; j < 3; ++j) m[i][j] = a[j][i]; return m; }
  template <typename T> T trace3(const mat3<T>& a) { return a[0][0] + a[1][1] + a[2][2]; }
  template <typename T> T det3(const mat3<T>& a) {
    return a[0][0] * (a[1][1] * a[2][2] - a[1][2] * a[2][1]) - a[0][1] * (a[1][0] * a[2][2] - a[1][2] * a[2][0]) + a[0][2] * (a[1][0] * a[2][1] - a[1][1] * a[2][0]);
  }
  template <typename T> T frob(const mat3<T>& a, const mat3<T>& b) { T s = T(0); for (int i = 0; i < 3; ++i) for (int j = 0; j < 3; ++j) s = s + a[i][j] * b[i][j]; return s; }

  //! Mandel map: stensor components (xx yy zz sqrt2*xy sqrt2*xz sqrt2*yz) -> symmetric 3x3 matrix
  template <unsigned short N, typename T, typename E>
  mat3<T> M(E& e, const tfel::math::stensor<N, T>& s) {
    auto m = zero3<T>();
    const T r = e.cst_sqrt2();
    m[0][0] = s[0]; m[1][1] = s[1]; m[2][2] = s[2];
    if constexpr (N >= 2) { m[0][1] = m[1][0] = s[3] / r; }
    if constexpr (N == 3) { m[0][2] = m[2][0] = s[4] / r; m[1][2] = m[2][1] = s[5] / r; }
    return m;
  }
  //! tensor components (xx yy zz xy yx xz zx yz zy) -> 3x3 matrix
  template <unsigned short N, typename T>
  mat3<T> Tm(const tfel::math::tensor<N, T>& t) {
    auto m = zero3<T>();
    m[0][0] = t[0]; m[1][1] = t[1]; m[2][2] = t[2];
    if constexpr (N >= 2) { m[0][1] = t[3]; m[1][0] = t[4]; }
    if constexpr (N == 3) { m[0][2] = t[5]; m[2][0] = t[6]; m[1][2] = t[7]; m[2][1] = t[8]; }
    return m;
  }
  template <typename T> mat3<T> of_tmatrix(const tfel::math::tmatrix<3u, 3u, T>& a) { mat3<T> m; for (unsigned short i = 0; i < 3; ++i) for (unsigned short j = 0; j < 3; ++j) m[i][j] = a(i, j); return m; }

  template <unsigned short N, typename E> auto sym_stensor(E& e, const std::string& n) {
    tfel::math::stensor<N, typename E::real> s;
    for (unsigned short i = 0; i < s.size(); ++i) s[i] = e.var(n + std::to_string(i));
    return s;
  }
  template <unsigned short N, typename E> auto sym_tensor(E& e, const std::string& n) {
    tfel::math::tensor<N, typename E::real> s;
    for (unsigned short i = 0; i < s.size(); ++i) s[i] = e.var(n + std::to_string(i));
    return s;
  }
  template <typename E> auto sym_tmatrix(E& e, const std::string& n) {
    tfel::math::tmatrix<3u, 3u, typename E::real> m;
    for (unsigned short i = 0; i < 3; ++i) for (unsigned short j = 0; j < 3; ++j) m(i, j) = e.var(n + std::to_string(i) + std::to_string(j));
    return m;
  }
  template <typename E> auto sym_tvector(E& e, const std::string& n) {
    tfel::math::tvector<3u, typename E::real> v;
    for (unsigned short i = 0; i < 3; ++i) v(i) = e.var(n + std::to_string(i));
    return v;
  }
  //! component-wise equality of two 3x3 matrices as one predicate
  template <typename E, typename T> auto mat_eq(E& e, const mat3<T>& a, const mat3<T>& b) {
    std::vector<decltype(e.tru())> v;
    for (int i = 0; i < 3; ++i) for (int j = 0; j < 3; ++j) v.push_back(e.eq(a[i][j], b[i][j]));
    return all_of(v);
  }
  //! one named obligation per matrix entry
  template <typename E, typename T> void ensure_mat_eq(E& e, const std::string& name, const mat3<T>& a, const mat3<T>& b) {
    for (int i = 0; i < 3; ++i) for (int j = 0; j < 3; ++j) e.ensure(name + "[" + std::to_string(i) + std::to_string(j) + "]", e.eq(a[i][j], b[i][j]));
  }
}  // namespace spec
#endif
