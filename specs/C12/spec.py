"""C12 — Runge-Kutta order conditions and Gauss-Kronrod degree conditions (E2)."""
from engines.symvc.discharge import run_spec


def run(ctx):
    ctx.assume("Runge-Kutta: y' = p(t) with symbolic polynomial coefficients; RungeKutta2/4: one increment; RungeKutta42/54: the single step dt = tf - ti accepted by the embedded error test (hypothesis |estimate| < eps); multi-step step-size control, rejection/retry and the floating-point 'stops exactly at tf' are NOT covered beyond that step",
               "Gauss-Kronrod: the core 15/7-point rule `integrate(f,a,b)` only: monomials up to degree 22 on [-1,1] within 1e-14 (the tables have 15 digits), error estimate up to degree 13, affine map and orientation for a generic cubic; the adaptive bisection, the tolerance claim, NaN bounds and half-infinite intervals are NOT covered")
    srcs = " ".join("%s/src/%s" % (ctx.repo, f) for f in ("Math/MathException.cxx", "Exception/TFELException.cxx"))
    run_spec(ctx, flags=srcs, expect_min=40, per_timeout=300 if ctx.thorough else 60)
