// C12 — Runge-Kutta order conditions and Gauss-Kronrod degree conditions (E2).
#include "vsym/traits.hxx"
#include "TFEL/Config/TFELConfig.hxx"
#include "TFEL/Math/tvector.hxx"
#include "TFEL/Math/RungeKutta2.hxx"
#include "TFEL/Math/RungeKutta4.hxx"
#include "TFEL/Math/RungeKutta42.hxx"
#include "TFEL/Math/RungeKutta54.hxx"
#include "TFEL/Math/NumericalIntegration/GaussKronrodQuadrature.hxx"
#include "vsym/driver.hxx"
using namespace tfel::math;

// p(t) = c0 + c1 t + ... ; primitive P(t) = c0 t + c1 t^2/2 + ...
template <class T> struct Poly {
  std::vector<T> c;
  T operator()(const T& t) const {
    T r = T(0);
    for (size_t k = c.size(); k-- > 0;) r = r * t + c[k];
    return r;
  }
  T primitive(const T& t) const {
    T r = T(0), tk = t;
    for (size_t k = 0; k < c.size(); ++k) {
      r = r + c[k] * tk / T(static_cast<int>(k + 1));
      tk = tk * t;
    }
    return r;
  }
};
template <class E> Poly<typename E::real> sym_poly(E& e, const unsigned degree) {
  Poly<typename E::real> p;
  for (unsigned k = 0; k <= degree; ++k) p.c.push_back(e.var("c" + std::to_string(k)));
  return p;
}
// fixed-step schemes: one increment of y' = p(t) from (t0, y0) with step h
template <class T> struct RK2Ode : RungeKutta2<1u, T, RK2Ode<T>> {
  Poly<T> p;
  void computeF(const T& t, const tvector<1u, T>&) { this->f(0) = p(t); }
};
template <class T> struct RK4Ode : RungeKutta4<1u, T, RK4Ode<T>> {
  Poly<T> p;
  void computeF(const T& t, const tvector<1u, T>&) { this->f(0) = p(t); }
};
template <template <class> class Ode, unsigned degree, class E> void c_fixed_step(E& e) {
  using T = typename E::real;
  Ode<T> s;
  s.p = sym_poly(e, degree);
  const T t0 = e.var("t0"), h = e.var("h"), y0 = e.var("y0");
  tvector<1u, T> y;
  y(0) = y0;
  s.set_y(y);
  s.set_t(t0);
  s.set_h(h);
  s.increm();
  e.ensure("y(t0+h) - y(t0) = integral of p over [t0,t0+h], exactly", e.eq(s.get_y()(0) - y0, s.p.primitive(t0 + h) - s.p.primitive(t0)));
  e.ensure("time advanced by exactly h", e.eq(s.get_t(), t0 + h));
}
template <class E> void c_rk2(E& e) { c_fixed_step<RK2Ode, 1>(e); }
template <class E> void c_rk4(E& e) { c_fixed_step<RK4Ode, 3>(e); }
// adaptive schemes: one accepted step covering [ti,tf]
template <class T> struct RK42Ode : RungeKutta42<1u, RK42Ode<T>, T> {
  Poly<T> p;
  T computeF(const T& t, const T&) const { return p(t); }
};
// RungeKutta54 does not compile for N = 1 (eval of a scalar): two components, y0' = p(t), y1' = 2 p(t)
template <class T> struct RK54Ode : RungeKutta54<2u, RK54Ode<T>, T> {
  Poly<T> p;
  tvector<2u, T> computeF(const T& t, const tvector<2u, T>&) const { tvector<2u, T> r; r(0) = p(t); r(1) = T(2) * p(t); return r; }
};
template <template <class> class Ode, unsigned degree, class E> void c_adaptive(E& e) {
  using T = typename E::real;
  Ode<T> s;
  s.p = sym_poly(e, degree);
  const T ti = e.var("ti"), tf = e.var("tf"), y0 = e.var("y0"), eps = e.var("eps"), dt0 = e.var("dt0");
  e.require(e.lt(ti, tf));
  e.require(e.lt(T(0), eps));
  e.require(e.le(tf - ti, dt0));  // the proposed increment covers the interval: the first step is dt = tf - ti
  if constexpr (E::symbolic) {
    // the embedded error estimate accepts that step (the only hypothesis on the polynomial); the estimate is recomputed here from
    // the same polynomial for the spec, the code makes its own test
    const T dt = tf - ti;
    if constexpr (degree == 3) {
      const T ve = dt * (s.p(ti) + s.p(tf) - T(2) * s.p(ti + dt / T(2))) / T(6);
      e.require(e.lt(-eps, ve) && e.lt(ve, eps));
    } else {
      const T k1 = dt * s.p(ti), k3 = dt * s.p(ti + T(3) / T(8) * dt), k4 = dt * s.p(ti + T(12) / T(13) * dt), k5 = dt * s.p(tf), k6 = dt * s.p(ti + dt / T(2));
      const T ve = k1 / T(360) - T(128) / T(4275) * k3 - T(2197) / T(75240) * k4 + k5 / T(50) + T(2) / T(55) * k6;
      e.require(e.lt(-eps, T(3) * ve) && e.lt(T(3) * ve, eps));  // error norm |ve| + |2 ve|
    }
  }
  if constexpr (degree == 4) {
    tvector<2u, T> y;
    y(0) = y0;
    y(1) = T(2) * y0;
    s.setInitialValue(y);
  } else {
    s.setInitialValue(y0);
  }
  s.setInitialTime(ti);
  s.setFinalTime(tf);
  s.setInitialTimeIncrement(dt0);
  s.setCriterionValue(eps);
  s.iterate();
  if constexpr (degree == 4) {
    e.ensure("accepted step: y0(tf) - y0(ti) = integral of p over [ti,tf], exactly", e.eq(s.getValue()(0) - y0, s.p.primitive(tf) - s.p.primitive(ti)));
    e.ensure("accepted step: y1(tf) - y1(ti) = integral of 2p over [ti,tf], exactly", e.eq(s.getValue()(1) - T(2) * y0, T(2) * (s.p.primitive(tf) - s.p.primitive(ti))));
  } else {
    e.ensure("accepted step: y(tf) - y(ti) = integral of p over [ti,tf], exactly", e.eq(s.getValue() - y0, s.p.primitive(tf) - s.p.primitive(ti)));
  }
  e.ensure("the integration stopped after that single step: last increment = tf - ti", e.eq(s.getTimeIncrement(), tf - ti));
}
template <class E> void c_rk42(E& e) { c_adaptive<RK42Ode, 3>(e); }
template <class E> void c_rk54(E& e) { c_adaptive<RK54Ode, 4>(e); }

// the adaptive integrators must reach the final time whatever the proposed initial increment: with a constant right-hand side every
// step is exact and always accepted, so y(tf) - y(ti) = c0 (tf - ti) exactly iff the accepted steps add up to tf - ti
template <template <class> class Ode, bool two_components, class E> void c_adaptive_reaches_tf(E& e) {
  using T = typename E::real;
  Ode<T> s;
  s.p = sym_poly(e, 0);
  const T ti = e.var("ti"), tf = e.var("tf"), y0 = e.var("y0"), eps = e.var("eps"), dt0 = e.var("dt0");
  e.require(e.lt(ti, tf));
  e.require(e.lt(T(0), eps));
  e.require(e.lt(T(0), dt0));
  e.require(e.le(tf - ti, T(6) * dt0));  // at most a handful of steps: keeps the path tree finite
  if constexpr (two_components) {
    tvector<2u, T> y;
    y(0) = y0;
    y(1) = T(2) * y0;
    s.setInitialValue(y);
  } else {
    s.setInitialValue(y0);
  }
  s.setInitialTime(ti);
  s.setFinalTime(tf);
  s.setInitialTimeIncrement(dt0);
  s.setCriterionValue(eps);
  s.iterate();
  if constexpr (two_components) {
    e.ensure("the integration reaches tf: y(tf) - y(ti) = c0 (tf - ti)", e.eq(s.getValue()(0) - y0, s.p.c[0] * (tf - ti)));
  } else {
    e.ensure("the integration reaches tf: y(tf) - y(ti) = c0 (tf - ti)", e.eq(s.getValue() - y0, s.p.c[0] * (tf - ti)));
  }
}
template <class E> void c_rk42_tf(E& e) { c_adaptive_reaches_tf<RK42Ode, false>(e); }
template <class E> void c_rk54_tf(E& e) { c_adaptive_reaches_tf<RK54Ode, true>(e); }
// Gauss-Kronrod: degree conditions of the tabulated nodes and weights. The quadrature cannot be instantiated at a class-type abscissa
// (its lambdas use constexpr locals without capturing them), so the abscissae are doubles and the integrand returns exact rationals:
// f(x) = (exact value of the double x)^k; the rule's sums are then exact rational arithmetic on the 15-digit tables.
template <unsigned k, class E> void c_gk_monomial(E& e) {
  using T = typename E::real;
  const GaussKronrodQuadrature q;
  const auto f = [](const double x) { T r = T(1); for (unsigned i = 0; i < k; ++i) r = r * T(x); return r; };
  const auto r = *q(f, -1., 1.);
  const T exact = (k % 2 == 0) ? T(2) / T(static_cast<int>(k + 1)) : T(0);
  const T tol = T(1) / T(100000000000000LL);  // 1e-14: the tables carry 15 significant digits
  e.ensure("Kronrod rule integrates x^" + std::to_string(k) + " on [-1,1] within 1e-14", e.lt(std::get<0>(r) - exact, tol) && e.lt(exact - std::get<0>(r), tol));
  if constexpr (k <= 13) {
    e.ensure("error estimate |K15 - G7| vanishes (within 1e-14) for x^" + std::to_string(k), e.lt(std::get<1>(r), tol));
  }
}
// change of interval and orientation on [1/2, 3] for the monomials up to degree 5 (the affine map does not depend on the degree)
template <unsigned k, class E> void c_gk_interval(E& e) {
  using T = typename E::real;
  const GaussKronrodQuadrature q;
  const auto f = [](const double x) { T r = T(1); for (unsigned i = 0; i < k; ++i) r = r * T(x); return r; };
  const auto ab = *q(f, 0.5, 3.);
  const auto ba = *q(f, 3., 0.5);
  T pa = T(1) / T(2), pb = T(3);
  for (unsigned i = 0; i < k; ++i) { pa = pa * T(1) / T(2); pb = pb * T(3); }
  const T exact = (pb - pa) / T(static_cast<int>(k + 1));
  const T tol = T(1) / T(1000000000000LL);  // 1e-12
  e.ensure("x^" + std::to_string(k) + " on [1/2,3] within 1e-12", e.lt(std::get<0>(ab) - exact, tol) && e.lt(exact - std::get<0>(ab), tol));
  e.ensure("swapping the bounds changes the sign of the integral, not the error estimate", e.eq(std::get<0>(ab), -std::get<0>(ba)) && e.eq(std::get<1>(ab), std::get<1>(ba)));
}
// same statement on a time range that does not start at zero, with concrete times (ti = 1, tf = 2) and proposed increments on both sides of
// tf - ti and of 2 (tf - ti): every time comparison folds to a constant, so the exploration is a single path whatever the loop does
template <template <class> class Ode, bool two_components, int num, int den, class E> void c_adaptive_offset_range(E& e) {
  using T = typename E::real;
  Ode<T> s;
  s.p = sym_poly(e, 0);
  const T ti = T(1), tf = T(2), y0 = e.var("y0"), eps = e.var("eps"), dt0 = T(num) / T(den);
  e.require(e.lt(T(0), eps));
  if constexpr (two_components) {
    tvector<2u, T> y;
    y(0) = y0;
    y(1) = T(2) * y0;
    s.setInitialValue(y);
  } else {
    s.setInitialValue(y0);
  }
  s.setInitialTime(ti);
  s.setFinalTime(tf);
  s.setInitialTimeIncrement(dt0);
  s.setCriterionValue(eps);
  s.iterate();
  if constexpr (two_components) {
    e.ensure("ti = 1, tf = 2: y(tf) - y(ti) = c0 (tf - ti)", e.eq(s.getValue()(0) - y0, s.p.c[0] * (tf - ti)));
  } else {
    e.ensure("ti = 1, tf = 2: y(tf) - y(ti) = c0 (tf - ti)", e.eq(s.getValue() - y0, s.p.c[0] * (tf - ti)));
  }
}
#define OFFS(NUM, DEN) \
  template <class E> void c_rk42_off_##NUM##_##DEN(E& e) { c_adaptive_offset_range<RK42Ode, false, NUM, DEN>(e); } VSYM_CONTRACT_P("RungeKutta42/iterate(ti=1,tf=2,dt0=" #NUM "/" #DEN ")", c_rk42_off_##NUM##_##DEN, 80) \
  template <class E> void c_rk54_off_##NUM##_##DEN(E& e) { c_adaptive_offset_range<RK54Ode, true, NUM, DEN>(e); } VSYM_CONTRACT_P("RungeKutta54/iterate(ti=1,tf=2,dt0=" #NUM "/" #DEN ")", c_rk54_off_##NUM##_##DEN, 80)
OFFS(3, 2) OFFS(3, 1) OFFS(2, 5)
VSYM_CONTRACT("RungeKutta2/increm(degree<=1)", c_rk2)
VSYM_CONTRACT("RungeKutta4/increm(degree<=3)", c_rk4)
VSYM_CONTRACT_P("RungeKutta42/iterate(accepted-step,degree<=3)", c_rk42, 60)
VSYM_CONTRACT_P("RungeKutta54/iterate(accepted-step,degree<=4)", c_rk54, 60)
VSYM_CONTRACT_P("RungeKutta42/iterate(reaches-tf)", c_rk42_tf, 80)
VSYM_CONTRACT_P("RungeKutta54/iterate(reaches-tf)", c_rk54_tf, 80)
#define GK(k) template <class E> void c_gk_##k(E& e) { c_gk_monomial<k>(e); } VSYM_CONTRACT("GaussKronrod/monomial/" #k, c_gk_##k)
GK(0) GK(1) GK(2) GK(3) GK(4) GK(5) GK(6) GK(7) GK(8) GK(9) GK(10) GK(11) GK(12) GK(13) GK(14) GK(15) GK(16) GK(17) GK(18) GK(19) GK(20) GK(21) GK(22)
#define GKI(k) template <class E> void c_gki_##k(E& e) { c_gk_interval<k>(e); } VSYM_CONTRACT("GaussKronrod/interval[1/2,3]/" #k, c_gki_##k)
GKI(0) GKI(1) GKI(2) GKI(3) GKI(5)
int main(int argc, char** argv) { return vsym::driver_main(argc, argv); }
