// C22 — equivalent-stress criteria (E2): value / normal / second-derivative variants agree, normal = gradient, second derivative =
// gradient of the normal, degree-one homogeneity. Eigenvalue-free criteria only (Drucker 1949, Cazacu 2004 isotropic).
#include "vsym/traits.hxx"
#include "TFEL/Math/stensor.hxx"
#include "TFEL/Math/st2tost2.hxx"
#include "TFEL/Material/IsotropicPlasticity.hxx"
#include "TFEL/Material/Drucker1949YieldCriterion.hxx"
#include "TFEL/Material/Cazacu2004IsotropicYieldCriterion.hxx"
#include "TFEL/Material/OrthotropicPlasticity.hxx"
#include "TFEL/Material/Cazacu2001YieldCriterion.hxx"
#include "vsym/driver.hxx"
using namespace tfel::math;
using namespace tfel::material;

template <unsigned short N, class E> stensor<N, typename E::real> sym_stress(E& e, const char* p = "s") {
  stensor<N, typename E::real> s;
  for (unsigned short i = 0; i != StensorDimeToSize<N>::value; ++i) s[i] = e.var(std::string(p) + std::to_string(i));
  return s;
}
template <unsigned short N, class T> T J2_of(const stensor<N, T>& sig) { const auto s = deviator(sig); return (s | s) / T(2); }
template <unsigned short N, class T> T J3_of(const stensor<N, T>& sig) { return det(deviator(sig)); }

template <unsigned short N, class E> void c_drucker(E& e) {
  using T = typename E::real;
  constexpr unsigned short n = StensorDimeToSize<N>::value;
  const auto sig = sym_stress<N>(e);
  const T c = e.var("c"), seps = e.var("seps");
  e.require(e.lt(T(0), seps));
  // regular branch of the criterion: J2 above the documented threshold, radicand positive
  const T J2 = J2_of<N, T>(sig), J3 = J3_of<N, T>(sig);
  e.require(e.lt(seps * seps, J2));
  e.require(e.lt(T(0), J2 * J2 * J2 - c * J3 * J3));
  const T v = computeDrucker1949StressCriterion(sig, c);
  const auto [v1, n1] = computeDrucker1949StressCriterionNormal(sig, c, seps);
  const auto [v2, n2, dn2] = computeDrucker1949StressCriterionSecondDerivative(sig, c, seps);
  e.ensure("seq >= 0", e.le(T(0), v));
  e.ensure("seq^6 = 27 (J2^3 - c J3^2)", e.eq(v * v * v * v * v * v, T(27) * (J2 * J2 * J2 - c * J3 * J3)));
  e.ensure("Normal variant returns the same seq", e.eq(v1, v));
  e.ensure("SecondDerivative variant returns the same seq", e.eq(v2, v));
  for (unsigned short i = 0; i != n; ++i) e.ensure("SecondDerivative variant returns the same normal(" + std::to_string(i) + ")", e.eq(n2[i], n1[i]));
  if constexpr (E::can_differentiate) {
    for (unsigned short i = 0; i != n; ++i) e.ensure("normal(" + std::to_string(i) + ") = d seq / d sig", e.eq(n1[i], e.d(v, sig[i])));
    for (unsigned short i = 0; i != n; ++i)
      for (unsigned short j = 0; j != n; ++j) e.ensure("second derivative(" + std::to_string(i) + "," + std::to_string(j) + ") = d normal / d sig", e.eq(dn2(i, j), e.d(n1[i], sig[j])));
  }
}
template <unsigned short N, class E> void c_drucker_homogeneity(E& e) {
  using T = typename E::real;
  const auto sig = sym_stress<N>(e);
  const T c = e.var("c"), l = e.var("lambda");
  e.require(e.lt(T(0), l));
  const T J2 = J2_of<N, T>(sig), J3 = J3_of<N, T>(sig);
  e.require(e.lt(T(0), J2 * J2 * J2 - c * J3 * J3));
  const T v = computeDrucker1949StressCriterion(sig, c);
  const stensor<N, T> sl = l * sig;
  const T vl = computeDrucker1949StressCriterion(sl, c);
  e.lemma("seq(lambda sig)^6 = (lambda seq(sig))^6", e.eq(vl * vl * vl * vl * vl * vl, l * l * l * l * l * l * v * v * v * v * v * v));
  e.ensure("degree-one homogeneity: seq(lambda sig) = lambda seq(sig)", e.eq(vl, l * v));
}
template <unsigned short N, class E> void c_cazacu2004(E& e) {
  using T = typename E::real;
  constexpr unsigned short n = StensorDimeToSize<N>::value;
  const auto sig = sym_stress<N>(e);
  const T c = e.var("c"), seps = e.var("seps");
  e.require(e.lt(T(0), seps));
  const T J2 = J2_of<N, T>(sig), J3 = J3_of<N, T>(sig);
  e.require(e.lt(T(0), J2));
  const T v = computeCazacu2004IsotropicStressCriterion(sig, c);
  e.require(e.lt(seps, v));  // regular branch: the equivalent stress is above the threshold used to regularise 1/seq
  const auto [v1, n1] = computeCazacu2004IsotropicStressCriterionNormal(sig, c, seps);
  const auto [v2, n2, dn2] = computeCazacu2004IsotropicStressCriterionSecondDerivative(sig, c, seps);
  e.ensure("seq^3 = J2^(3/2) - c J3 (squared form)", e.eq((v * v * v + c * J3) * (v * v * v + c * J3), J2 * J2 * J2));
  e.ensure("Normal variant returns the same seq", e.eq(v1, v));
  e.ensure("SecondDerivative variant returns the same seq", e.eq(v2, v));
  for (unsigned short i = 0; i != n; ++i) e.ensure("SecondDerivative variant returns the same normal(" + std::to_string(i) + ")", e.eq(n2[i], n1[i]));
  if constexpr (E::can_differentiate) {
    for (unsigned short i = 0; i != n; ++i) e.ensure("normal(" + std::to_string(i) + ") = d seq / d sig", e.eq(n1[i], e.d(v, sig[i])));
    for (unsigned short i = 0; i != n; ++i)
      for (unsigned short j = 0; j != n; ++j) e.ensure("second derivative(" + std::to_string(i) + "," + std::to_string(j) + ") = d normal / d sig", e.eq(dn2(i, j), e.d(n1[i], sig[j])));
  }
}
// Cazacu 2001 (orthotropic generalisation of Drucker): J2O, J3O with symbolic anisotropy coefficients
template <unsigned short N, class E> void c_cazacu2001(E& e) {
  using T = typename E::real;
  constexpr unsigned short n = StensorDimeToSize<N>::value;
  const auto sig = sym_stress<N>(e);
  J2OCoefficients<stensor<N, T>> a;
  J3OCoefficients<stensor<N, T>> b;
  // a fixed generic anisotropy (exact rationals, pairwise distinct): with the 17 coefficients symbolic the second-derivative identities
  // exceed the budget of the exact algebra; the stress state, c and seps stay symbolic
  const int an[6] = {1, 1, 3, 2, 5, 3}, ad[6] = {1, 2, 2, 1, 4, 4};
  const int bn[11] = {1, 2, 1, 3, 4, 1, 5, 2, 7, 3, 5}, bd[11] = {1, 3, 2, 4, 5, 3, 6, 1, 8, 5, 7};
  for (unsigned short i = 0; i != 6; ++i) a[i] = T(an[i]) / T(ad[i]);
  for (unsigned short i = 0; i != 11; ++i) b[i] = T(bn[i]) / T(bd[i]);
  const T c = e.var("c"), seps = e.var("seps");
  e.require(e.lt(T(0), seps));
  const T J2O = computeJ2O(sig, a), J3O = computeJ3O(sig, b);
  e.require(e.lt(seps * seps, J2O));
  e.require(e.lt(T(0), J2O * J2O * J2O - c * J3O * J3O));
  const T v = computeCazacu2001StressCriterion(sig, a, b, c);
  const auto [v1, n1] = computeCazacu2001StressCriterionNormal(sig, a, b, c, seps);
  const auto [v2, n2, dn2] = computeCazacu2001StressCriterionSecondDerivative(sig, a, b, c, seps);
  e.ensure("seq^6 = 27 (J2O^3 - c J3O^2)", e.eq(v * v * v * v * v * v, T(27) * (J2O * J2O * J2O - c * J3O * J3O)));
  e.ensure("Normal variant returns the same seq", e.eq(v1, v));
  e.ensure("SecondDerivative variant returns the same seq", e.eq(v2, v));
  for (unsigned short i = 0; i != n; ++i) e.ensure("SecondDerivative variant returns the same normal(" + std::to_string(i) + ")", e.eq(n2[i], n1[i]));
  if constexpr (E::can_differentiate) {
    for (unsigned short i = 0; i != n; ++i) e.ensure("normal(" + std::to_string(i) + ") = d seq / d sig", e.eq(n1[i], e.d(v, sig[i])));
    for (unsigned short i = 0; i != n; ++i)
      for (unsigned short j = 0; j != n; ++j) e.ensure("second derivative(" + std::to_string(i) + "," + std::to_string(j) + ") = d normal / d sig", e.eq(dn2(i, j), e.d(n1[i], sig[j])));
  }
}
#define CN(NAME, FN, N) template <class E> void FN##N(E& e) { FN<N>(e); } VSYM_CONTRACT(NAME "/" #N "D", FN##N)
CN("Drucker1949", c_drucker, 1)
CN("Drucker1949", c_drucker, 2)
CN("Drucker1949/homogeneity", c_drucker_homogeneity, 1)
CN("Drucker1949/homogeneity", c_drucker_homogeneity, 2)
CN("Cazacu2001", c_cazacu2001, 1)
CN("Cazacu2004Isotropic", c_cazacu2004, 1)
CN("Cazacu2004Isotropic", c_cazacu2004, 2)
#ifdef VERIF_THOROUGH
CN("Cazacu2001", c_cazacu2001, 2)
CN("Cazacu2004Isotropic", c_cazacu2004, 3)
#endif
#ifdef VERIF_EXPERIMENTAL  /* Drucker 1949 in 3D: 36 second-derivative entries of degree-12 rational functions; not finished in 30 minutes on 6 workers */
CN("Drucker1949", c_drucker, 3)
CN("Drucker1949/homogeneity", c_drucker_homogeneity, 3)
#endif
int main(int argc, char** argv) { return vsym::driver_main(argc, argv); }
