// C22 (eigen-completion part) — Hosford 1972 and Barlat 2004 build their second derivative from the eigen decomposition of the
// (transformed) stress: internals::computeHosfordStressSecondDerivative and internals::completeBaralatStressSecondDerivative take the
// eigenvalues vp, the rotation m, and the first / second derivatives of the criterion with respect to the eigenvalues. Contract: for an
// isotropic function Psi(s) = psi(vp) the result is the Hessian of Psi with respect to s. Oracle: Psi = sum_k c_k Psi_k with symbolic
// coefficients over the nine products of power sums p1, p2, p3, p1^2, p1 p2, p2^2, p1 p3, p2 p3, p3^2 (p_k = tr s^k), whose gradients and
// Hessians are known without any eigen decomposition (Hess p2 [X] = 2X, Hess p3 [X] = 3(sX + Xs), product rule). Both sides are linear
// in the nine eigenvalue-derivative data, and the nine test functions span them, so exactness on the combination is exactness for every
// twice differentiable symmetric psi. The eigen solvers and the pow/abs formulas of the criteria themselves are NOT under this contract.
#include "vsym/traits.hxx"
#include <functional>
#include "TFEL/Math/stensor.hxx"
#include "TFEL/Math/st2tost2.hxx"
#include "TFEL/Material/Hosford1972YieldCriterion.hxx"
#include "TFEL/Material/Barlat2004YieldCriterion.hxx"
#include "vsym/driver.hxx"
#include "common/mandel.hxx"
using namespace tfel::math;
using namespace spec;

template <class T> mat3<T> mpow(const mat3<T>& a, unsigned k) { auto r = id3<T>(); for (unsigned i = 0; i < k; ++i) r = mul(r, a); return r; }
template <class T> T ipw(const T& x, unsigned k) { T r = T(1); for (unsigned i = 0; i < k; ++i) r = r * x; return r; }

// a scalar function of s with everything the oracle needs
template <class T> struct Fn {
  T v;                                              // value
  mat3<T> g;                                        // gradient (symmetric matrix)
  std::function<mat3<T>(const mat3<T>&)> H;         // Hessian applied to a symmetric matrix
  std::array<T, 3> d;                               // d/d vp_i
  std::array<std::array<T, 3>, 3> dd;               // d2/d vp_i d vp_j
};
template <class T> Fn<T> power_sum(const mat3<T>& s, const std::array<T, 3>& vp, const unsigned k) {
  Fn<T> f;
  f.v = trace3(mpow(s, k));
  f.g = scale(T(k), mpow(s, k - 1));
  f.H = [s, k](const mat3<T>& X) { auto r = zero3<T>(); for (unsigned j = 0; j + 2 <= k; ++j) r = add(r, mul(mul(mpow(s, j), X), mpow(s, k - 2 - j))); return scale(T(k), r); };
  for (int i = 0; i < 3; ++i) { f.d[i] = T(k) * ipw(vp[i], k - 1); for (int j = 0; j < 3; ++j) f.dd[i][j] = (i == j && k >= 2) ? T(k * (k - 1)) * ipw(vp[i], k - 2) : T(0); }
  return f;
}
template <class T> Fn<T> product(const Fn<T>& u, const Fn<T>& w) {
  Fn<T> f;
  f.v = u.v * w.v;
  f.g = add(scale(u.v, w.g), scale(w.v, u.g));
  f.H = [u, w](const mat3<T>& X) { return add(add(scale(u.v, w.H(X)), scale(w.v, u.H(X))), add(scale(frob(u.g, X), w.g), scale(frob(w.g, X), u.g))); };
  for (int i = 0; i < 3; ++i) { f.d[i] = u.v * w.d[i] + w.v * u.d[i]; for (int j = 0; j < 3; ++j) f.dd[i][j] = u.v * w.dd[i][j] + w.v * u.dd[i][j] + u.d[i] * w.d[j] + u.d[j] * w.d[i]; }
  return f;
}
template <class E> tmatrix<3, 3, typename E::real> axis_rotation(E& e, const unsigned axis) {
  using T = typename E::real;
  const T c = e.var("c"), s = e.var("s");
  e.require(e.eq(c * c + s * s, T(1)));
  tmatrix<3, 3, T> m;
  for (unsigned short i = 0; i < 3; ++i) for (unsigned short j = 0; j < 3; ++j) m(i, j) = T(i == j ? 1 : 0);
  const unsigned short a = (axis + 1) % 3, b = (axis + 2) % 3;
  m(a, a) = c; m(a, b) = -s; m(b, a) = s; m(b, b) = c;
  return m;
}
// kase: 0 distinct, 1 vp0=vp1, 2 vp0=vp2, 3 vp1=vp2, 4 all equal
template <unsigned short N, unsigned axis, unsigned kase, bool barlat, class E> void c_completion(E& e) {
  using T = typename E::real;
  using S = stensor<N, T>;
  tvector<3, T> vp;
  vp(0) = e.var("l0");
  vp(1) = (kase == 1 || kase == 4) ? vp(0) : e.var("l1");
  vp(2) = (kase == 2 || kase == 4) ? vp(0) : (kase == 3 ? vp(1) : e.var("l2"));
  const T eps = e.var("eps");
  e.require(e.lt(T(0), eps));
  auto far = [&](const T& a, const T& b) { return e.lt(eps, a - b) || e.lt(eps, b - a); };
  if (kase == 0 || kase == 2 || kase == 3) e.require(far(vp(0), vp(1)));
  if (kase == 0 || kase == 1 || kase == 3) e.require(far(vp(0), vp(2)));
  if (kase == 0 || kase == 1 || kase == 2) e.require(far(vp(1), vp(2)));
  tmatrix<3, 3, T> m;
  if constexpr (N == 1) { for (unsigned short i = 0; i < 3; ++i) for (unsigned short j = 0; j < 3; ++j) m(i, j) = T(i == j ? 1 : 0); }
  else m = axis_rotation(e, axis);
  const S s = S::computeIsotropicFunction(vp, m);
  const auto ms = M<N, T>(e, s);
  const std::array<T, 3> l{vp(0), vp(1), vp(2)};
  const Fn<T> p1 = power_sum(ms, l, 1), p2 = power_sum(ms, l, 2), p3 = power_sum(ms, l, 3);
  const std::array<Fn<T>, 9> fs{p1, p2, p3, product(p1, p1), product(p1, p2), product(p2, p2), product(p1, p3), product(p2, p3), product(p3, p3)};
  std::array<T, 9> c;
  for (unsigned k = 0; k < 9; ++k) c[k] = e.var("c" + std::to_string(k));
  tvector<3, T> d;
  tvector<6, T> dd;
  for (unsigned short i = 0; i < 3; ++i) { d(i) = T(0); for (unsigned k = 0; k < 9; ++k) d(i) = d(i) + c[k] * fs[k].d[i]; }
  const unsigned short I[6] = {0, 1, 2, 0, 0, 1}, J[6] = {0, 1, 2, 1, 2, 2};
  for (unsigned short q = 0; q < 6; ++q) { dd(q) = T(0); for (unsigned k = 0; k < 9; ++k) dd(q) = dd(q) + c[k] * fs[k].dd[I[q]][J[q]]; }
  S n0, n1, n2;
  S::computeEigenTensors(n0, n1, n2, m);
  st2tost2<N, T> D;
  if constexpr (!barlat) {
    tfel::material::internals::computeHosfordStressSecondDerivative<S>(D, d, dd, n0, n1, n2, vp, m, eps);
  } else {
    // Barlat's helper adds the eigenvector-rotation terms to the eigenvalue part, which its caller has already stored
    D = dd[0] * (n0 ^ n0) + dd[3] * (n0 ^ n1) + dd[4] * (n0 ^ n2) + dd[1] * (n1 ^ n1) + dd[3] * (n1 ^ n0) + dd[5] * (n1 ^ n2) + dd[2] * (n2 ^ n2) + dd[4] * (n2 ^ n0) + dd[5] * (n2 ^ n1);
    tfel::material::internals::completeBaralatStressSecondDerivative<S>(D, d, dd, vp, m, eps);
  }
  for (unsigned short a = 0; a < s.size(); ++a) {
    S X(T(0));
    X[a] = T(1);
    const S DX = D * X;
    const auto mX = M<N, T>(e, X);
    auto rhs = zero3<T>();
    for (unsigned k = 0; k < 9; ++k) rhs = add(rhs, scale(c[k], fs[k].H(mX)));
    ensure_mat_eq(e, "second derivative applied to basis tensor " + std::to_string(a) + " = Hessian of the isotropic function", M<N, T>(e, DX), rhs);
  }
}
#define K(CRIT, B, N, AX, KASE, NAME) template <class E> void k_##CRIT##_##N##_##AX##_##KASE(E& e) { c_completion<N, AX, KASE, B>(e); } VSYM_CONTRACT_P(#CRIT "/eigen completion/" NAME, k_##CRIT##_##N##_##AX##_##KASE, 80)
#define BOTH(N, AX, KASE, NAME) K(Hosford1972, false, N, AX, KASE, NAME) K(Barlat2004, true, N, AX, KASE, NAME)
BOTH(1, 2, 0, "1D")
BOTH(2, 2, 0, "2D/distinct")
BOTH(2, 2, 1, "2D/vp0=vp1")
BOTH(3, 2, 0, "3D/rotation about z/distinct")
BOTH(3, 2, 1, "3D/rotation about z/vp0=vp1")
BOTH(3, 2, 2, "3D/rotation about z/vp0=vp2")
BOTH(3, 2, 3, "3D/rotation about z/vp1=vp2")
BOTH(3, 2, 4, "3D/rotation about z/all equal")
#ifdef VERIF_THOROUGH
BOTH(3, 0, 0, "3D/rotation about x/distinct")
BOTH(3, 0, 2, "3D/rotation about x/vp0=vp2")
BOTH(3, 1, 0, "3D/rotation about y/distinct")
BOTH(3, 1, 3, "3D/rotation about y/vp1=vp2")
#endif
int main(int argc, char** argv) { return vsym::driver_main(argc, argv); }
