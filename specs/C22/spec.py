"""C22 — equivalent-stress criteria (E2, eigenvalue-free criteria)."""
from engines.symvc.discharge import run_spec


def run(ctx):
    ctx.trust("vsym symbolic differentiation rules (sum, product, quotient, y = x^(1/k) through y^k = x)")
    ctx.assume("in reach: Drucker 1949, Cazacu 2001 (J2O/J3O at a fixed generic anisotropy: exact rational coefficients, stress state and c symbolic) and Cazacu 2004 (isotropic), value / normal / second-derivative variants, on their regular branch (J2 and seq above the documented thresholds, positive radicands); von Mises is under C01; derivatives are taken in Mandel components (TFEL convention)",
               "Hosford 1972 and Barlat 2004: only the eigen-completion helpers are under contract (internals::computeHosfordStressSecondDerivative, internals::completeBaralatStressSecondDerivative: from the eigenvalues, the rotation and the derivatives of the criterion with respect to the eigenvalues to the second derivative with respect to the stress; oracle: Hessians of products of power sums, see specs/C22/e2_eigen.cxx; 1D, 2D in-plane rotations, 3D rotations about one coordinate axis, every pattern of repeated eigenvalues); the eigen solvers and the pow/abs formulas of these criteria are NOT, hence Hosford(a=2)=Mises and Barlat(Id)=Hosford are not claimed",
               "out of reach, NOT claimed: Mohr-Coulomb (Lode angle trigonometry); Gurson-Tvergaard-Needleman, Rousselier-Tanguy-Besson, Michel-Suquet (cosh/exp, implicit scalar solves); Cazacu 2004 orthotropic and isotropy under change of basis are not built",
               "quick: 1D and 2D; thorough adds Cazacu 2004 isotropic in 3D and Cazacu 2001 in 2D (Drucker 1949 in 3D is written, VERIF_EXPERIMENTAL, but did not finish in 30 minutes and is in neither tier)")
    run_spec(ctx, flags="-DVERIF_THOROUGH" if ctx.thorough else "", expect_min=60, per_timeout=600 if ctx.thorough else 60)
    run_spec(ctx, src="e2_eigen.cxx", exe="e2_eigen", flags="-DVERIF_THOROUGH" if ctx.thorough else "", expect_min=300, per_timeout=600 if ctx.thorough else 120)
    # derivative obligations have no symbolic-to-double replay: replay them against finite differences of the real code (replay/C22.cxx)
    from engines import replay as R
    import json
    import re
    for o in ctx.obligations:
        if o.status != "failed" or o.reproduced or not o.inputs:
            continue
        m = re.match(r"C22/(Drucker1949|Cazacu2004Isotropic)/(\d)D/.*?(normal|second_derivative)\(", o.name)
        if not m:
            continue
        n = {"1": 3, "2": 4, "3": 6}[m.group(2)]
        ins = o.inputs
        args = ["drucker" if m.group(1).startswith("Drucker") else "cazacu2004", m.group(2), "normal" if m.group(3) == "normal" else "second",
                repr(ins.get("c", 0.0)), repr(ins.get("seps", 1e-12))] + [repr(ins.get("s%d" % i, 0.0)) for i in range(n)]
        ok, out = R.native(ctx, "C22.cxx", args, extra_flags="-w")
        o.reproduced = ok
        o.detail += " | native replay against finite differences: %s" % out.strip().replace("\n", " ; ")[-300:]
        try:
            d = json.load(open(o.replay))
            d["reproduced_on_real_code"] = ok
            d["finite_difference_replay"] = out
            json.dump(d, open(o.replay, "w"), indent=1)
        except Exception:
            pass
