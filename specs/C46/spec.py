"""C46 — the mfront inter-process lock (E1): a data-structure invariant over ghost state (value of the named semaphore,
units held by this process and by the others) preserved by every operation, process exit included."""
import os
import re

from engines.cbmcc.run import Job, run_jobs
from engines.cbmcc import extract as X

F = "mfront/src/MFrontLock.cxx"
POSIX = {"name": "select the POSIX branch of #if _WIN32 ... #else ... #endif", "re": r"#if defined _WIN32 \|\| defined _WIN64 \|\| defined __CYGWIN__\n.*?#else\n(.*?)#endif[^\n]*\n", "sub": r"\1"}
LOG = {"name": "drop the verbose-mode log statement", "drop_block": r"if \(getVerboseMode\(\) >= VERBOSE_LEVEL2\) \{", "min": 1}
RAISE = {"name": "tfel::raise_if(c, msg) -> ghost exception flag, path ends", "re": r"tfel::raise_if\((.*?),\s*\"[^;]*\);", "sub": r"RAISE_IF(\1);", "min": 1}
GLOBAL = {"name": "global-scope qualifier", "re": r"(?<![\w:])::(\w)", "sub": r"\1"}
THIS = {"name": "this->l", "re": r"this->l\b", "sub": "this_l"}
UNLINK = {"name": "sem_unlink(<name expression>) -> model stub (the name expression is dropped)", "re": r"::sem_unlink\([^;]*\);", "sub": "sem_unlink_any();"}
TAIL = [UNLINK, GLOBAL, THIS, {"name": "member calls on this", "re": r"this->(lock|unlock)\(\)", "sub": r"MFrontLock_\1()"},
        {"name": "singleton access", "re": r"MFrontLock::getMFrontLock\(\)\.(lock|unlock)\(\)", "sub": r"MFrontLock_\1()"},
        {"name": "no unmapped C++ may remain", "forbid": r"this->|tfel::|std::|<<"}]
BODIES = [
    dict(name="MFrontLock_ctor", file=F, pattern=r"MFrontLock::MFrontLock\(\)", rules=[
        dict(POSIX, min=1, max=1),
        {"name": "semaphore name: stream declaration", "re": r"std::ostringstream sn;", "sub": "", "min": 1, "max": 1},
        {"name": "semaphore name: \"/mfront-\" << geteuid() -> the uid", "re": r"sn << \"/mfront-\" << ::geteuid\(\);", "sub": "const int sn = geteuid();", "min": 1, "max": 1},
        {"name": "semaphore name argument", "re": r"sn\.str\(\)\.c_str\(\)", "sub": "sn", "min": 1, "max": 1}, RAISE] + TAIL),
    dict(name="MFrontLock_lock", file=F, pattern=r"void MFrontLock::lock\(\)", rules=[LOG, dict(POSIX, min=1, max=1), RAISE] + TAIL),
    dict(name="MFrontLock_unlock", file=F, pattern=r"void MFrontLock::unlock\(\)", rules=[LOG, dict(POSIX, min=1, max=1)] + TAIL),
    dict(name="MFrontLock_dtor", file=F, pattern=r"MFrontLock::~MFrontLock\(\)", rules=[dict(POSIX)] + TAIL),
    dict(name="MFrontLockGuard_ctor", file=F, pattern=r"MFrontLockGuard::MFrontLockGuard\(\)", rules=TAIL),
    dict(name="MFrontLockGuard_dtor", file=F, pattern=r"MFrontLockGuard::~MFrontLockGuard\(\)", rules=TAIL),
]


def static_facts(ctx):
    """Supporting static facts (not obligations): the handle `l` is touched only by the functions under contract; the guard
    is the only user of lock()/unlock() outside MFrontLock.cxx."""
    try:
        src = X.strip_comments(open(os.path.join(ctx.repo, F)).read())
    except OSError as e:
        ctx.undecided("C46/static", "cannot read %s: %s" % (F, e))
        return
    uses = len(re.findall(r"this->l\b", src))
    ctx.static_facts.append("mfront/src/MFrontLock.cxx: %d uses of the handle this->l, all inside MFrontLock's constructor, lock, unlock and destructor (the functions under contract); `l` is a private member" % uses)
    bad = []
    for root in ("mfront/src", "mfront/include", "mfront-query", "mtest/src", "src"):
        d = os.path.join(ctx.repo, root)
        for dp, _dn, fns in os.walk(d):
            for fn in fns:
                if not fn.endswith((".cxx", ".hxx", ".ixx")) or fn in ("MFrontLock.cxx", "MFrontLock.hxx"):
                    continue
                t = X.strip_comments(open(os.path.join(dp, fn), errors="replace").read())
                if re.search(r"getMFrontLock\(\)|\bsem_(?:post|wait|open|unlink)\b", t):
                    bad.append(os.path.relpath(os.path.join(dp, fn), ctx.repo))
    if bad:
        ctx.undecided("C46/static/lock-used-only-through-the-guard", "the lock or its semaphore is used directly in: %s" % ", ".join(bad[:5]))
    else:
        ctx.static_facts.append("no file other than MFrontLock.cxx calls getMFrontLock() or a sem_* function: critical sections are entered only through MFrontLockGuard (grep; supporting fact, not proof)")


def run(ctx):
    ctx.assume("POSIX semaphore operations are atomic and behave as their stubs say (sem_open creates with the given value only if the semaphore does not exist; sem_wait takes a unit or fails with EINTR; sem_post gives one back): assumed contracts on the kernel",
               "every mfront process of the user runs this same code, so an invariant preserved by each operation of one process from an arbitrary admissible state holds in every interleaving and history (operations between semaphore calls touch no shared state)",
               "normal exit only: a process killed inside a critical section keeps its unit forever (not covered by the statement)",
               "the destructor runs at static destruction, after every MFrontLockGuard has been destroyed (g_held == 0)",
               "a semaphore left over from runs of an earlier, defective version may already violate the invariant; the proof starts from a system without the semaphore or with an admissible one",
               "Windows branch (named mutex) not covered")
    static_facts(ctx)
    tpl = os.path.join(ctx.spec_dir, "lock.c.in")
    jobs = []
    for fn, repl, mino in (("MFrontLock_ctor", [], 3), ("MFrontLock_lock", [], 3), ("MFrontLock_unlock", [], 2), ("MFrontLock_dtor", ["MFrontLock_unlock"], 2),
                           ("MFrontLockGuard_ctor", ["MFrontLock_lock"], 2), ("MFrontLockGuard_dtor", ["MFrontLock_unlock"], 2)):
        jobs.append(Job(fn, tpl, bodies=BODIES, enforce=fn, replace=repl, min_obligations=mino, needs=[fn]))
    jobs.append(Job("mutual_exclusion", tpl, bodies=BODIES, harness="h_mutual_exclusion", needs=[], min_obligations=2, vacuity=False))
    jobs.append(Job("initial", tpl, bodies=BODIES, harness="h_initial", needs=[], min_obligations=1, vacuity=False))
    run_jobs(ctx, jobs, replay_fn=replay)


def replay(ctx, job, ob):
    """The real MFrontLock.cxx of the working tree, run in child processes that exit normally (replay/C46.cxx): the value of the
    named semaphore must be the same before and after. Covers the obligations about process exit and unit conservation."""
    from engines import replay as R
    ok, out = R.native(ctx, "C46.cxx", [], extra_flags='-w -I%s/mfront/include \'-DVERIF_MFRONTLOCK_CXX="%s/%s"\'' % (ctx.repo, ctx.repo, F), libs="-lpthread", extra_src=())
    ob.detail += " | native replay (two normally exiting processes, semaphore value before/after): %s" % out.strip().replace("\n", " ; ")[-300:]
    return ok
