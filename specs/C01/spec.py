"""C01 — stensor algebra = 3x3 symmetric matrix meaning (E2, proof over the reals)."""
from engines.symvc.discharge import run_spec


def run(ctx):
    ctx.assume("change_basis convention: columns of the matrix are the new basis vectors (M' = r^T M r); proved for every 3x3 matrix r, orthogonality not needed",
               "2D change of basis: rotation about the third axis only (r(0,2)=r(1,2)=r(2,0)=r(2,1)=0, r(2,2)=1), as the 2D formula documents",
               "the 'up to rounding' magnitude is not covered: identities are proved in real arithmetic, i.e. rounding is the only discrepancy")
    run_spec(ctx, expect_min=200)
