// C01 — stensor algebra = 3x3 symmetric matrix meaning (E2: real templates at vsym::sym).
// Every `ensure` is taken from the property statement; M(.) is the Mandel map of specs/common/mandel.hxx.
#include "vsym/traits.hxx"
#include "TFEL/Math/stensor.hxx"
#include "TFEL/Math/st2tost2.hxx"
#include "vsym/driver.hxx"
#include "common/mandel.hxx"
using namespace tfel::math;
using namespace spec;

template <unsigned short N, class E> void c_trace_det(E& e) {
  using T = typename E::real;
  const auto s = sym_stensor<N>(e, "s");
  const auto m = M<N, T>(e, s);
  e.ensure("trace(s)=tr(M)", e.eq(trace(s), trace3(m)));
  e.ensure("det(s)=det(M)", e.eq(det(s), det3(m)));
}
template <unsigned short N, class E> void c_invert(E& e) {
  using T = typename E::real;
  const auto s = sym_stensor<N>(e, "s");
  const auto m = M<N, T>(e, s);
  e.require(!e.eq(det3(m), T(0)));
  const stensor<N, T> is = invert(s);
  ensure_mat_eq(e, "M(invert(s)).M(s)=I", mul(M<N, T>(e, is), m), id3<T>());
}
template <unsigned short N, class E> void c_square(E& e) {
  using T = typename E::real;
  const auto s = sym_stensor<N>(e, "s");
  const auto m = M<N, T>(e, s);
  const stensor<N, T> s2 = square(s);
  ensure_mat_eq(e, "M(square(s))=M.M", M<N, T>(e, s2), mul(m, m));
}
template <unsigned short N, class E> void c_symmetric_product(E& e) {
  using T = typename E::real;
  const auto a = sym_stensor<N>(e, "a");
  const auto b = sym_stensor<N>(e, "b");
  const auto ma = M<N, T>(e, a), mb = M<N, T>(e, b);
  const stensor<N, T> p = symmetric_product(a, b);
  // docs/web/tensors.md: a ._s b = 1/2 (a.b + b.a)   (issue 998; the doxygen comment in stensor.hxx omits the 1/2)
  ensure_mat_eq(e, "M(symmetric_product(a,b))=(M(a)M(b)+M(b)M(a))/2", M<N, T>(e, p), scale(T(1) / T(2), add(mul(ma, mb), mul(mb, ma))));
}
template <unsigned short N, class E> void c_deviator_sigmaeq(E& e) {
  using T = typename E::real;
  const auto s = sym_stensor<N>(e, "s");
  const auto m = M<N, T>(e, s);
  const stensor<N, T> d = deviator(s);
  const auto md = sub(m, scale(trace3(m) / T(3), id3<T>()));
  ensure_mat_eq(e, "M(deviator(s))=M-tr(M)/3.I", M<N, T>(e, d), md);
  const T seq = sigmaeq(s);
  e.ensure("sigmaeq>=0", e.le(T(0), seq));
  e.ensure("sigmaeq^2=3/2.dev:dev", e.eq(seq * seq, T(3) / T(2) * frob(md, md)));
}
template <unsigned short N, class E> void c_contraction(E& e) {
  using T = typename E::real;
  const auto a = sym_stensor<N>(e, "a");
  const auto b = sym_stensor<N>(e, "b");
  const auto ma = M<N, T>(e, a), mb = M<N, T>(e, b);
  e.ensure("a|b=Frobenius(M(a),M(b))", e.eq(T(a | b), frob(ma, mb)));
}
template <unsigned short N, class E> void c_change_basis(E& e) {
  using T = typename E::real;
  const auto s = sym_stensor<N>(e, "s");
  auto r = sym_tmatrix(e, "r");
  if constexpr (N == 2) {
    // 2D: rotation around the third axis (documented restriction of the 2D formula)
    r(0, 2) = r(1, 2) = r(2, 0) = r(2, 1) = T(0);
    r(2, 2) = T(1);
  }
  if constexpr (N == 1) {
    r = tmatrix<3u, 3u, T>::Id();
  }
  const auto m = M<N, T>(e, s);
  const auto mr = of_tmatrix<T>(r);
  const stensor<N, T> sr = change_basis(s, r);
  // convention: columns of r are the new basis vectors, M' = r^T M r; the polynomial identity holds for every 3x3 r
  ensure_mat_eq(e, "M(change_basis(s,r))=rT.M.r", M<N, T>(e, sr), mul(tr(mr), mul(m, mr)));
  stensor<N, T> s2 = s;
  s2.changeBasis(r);
  ensure_mat_eq(e, "M(s.changeBasis(r))=rT.M.r", M<N, T>(e, s2), mul(tr(mr), mul(m, mr)));
}
template <unsigned short N, class E> void c_matrix_conversions(E& e) {
  using T = typename E::real;
  const auto s = sym_stensor<N>(e, "s");
  const auto m = M<N, T>(e, s);
  tmatrix<3u, 3u, T> tm;
  for (unsigned short i = 0; i < 3; ++i) for (unsigned short j = 0; j < 3; ++j) tm(i, j) = m[i][j];
  const stensor<N, T> b = stensor<N, T>::buildFromMatrix(tm);
  for (unsigned short i = 0; i < s.size(); ++i) e.ensure("buildFromMatrix(M(s))=s[" + std::to_string(i) + "]", e.eq(b[i], s[i]));
  // a general (possibly non symmetric) matrix: the result is the symmetric part
  const auto g = sym_tmatrix(e, "g");
  const stensor<N, T> bg = stensor<N, T>::buildFromMatrix(g);
  auto gs = scale(T(1) / T(2), add(of_tmatrix<T>(g), tr(of_tmatrix<T>(g))));
  auto mbg = M<N, T>(e, bg);
  for (int i = 0; i < 3; ++i) for (int j = 0; j < 3; ++j) {
    const bool in = (i == j) || (N == 3) || (N == 2 && i < 2 && j < 2);
    if (in) e.ensure("M(buildFromMatrix(g))=sym(g)[" + std::to_string(i) + std::to_string(j) + "]", e.eq(mbg[i][j], gs[i][j]));
  }
  const stensor<N, T> id = stensor<N, T>::Id();
  ensure_mat_eq(e, "M(Id)=I", M<N, T>(e, id), id3<T>());
}
template <unsigned short N, class E> void c_voigt(E& e) {
  using T = typename E::real;
  constexpr unsigned short n = StensorDimeToSize<N>::value;
  T p[6];
  for (unsigned short i = 0; i < n; ++i) p[i] = e.var("p" + std::to_string(i));
  // stress-like Voigt array (xx yy zz xy xz yz): M_ij = p_k
  stensor<N, T> s;
  s.importTab(static_cast<const T*>(p));
  auto ms = M<N, T>(e, s);
  e.ensure("importTab:xx", e.eq(ms[0][0], p[0]));
  e.ensure("importTab:yy", e.eq(ms[1][1], p[1]));
  e.ensure("importTab:zz", e.eq(ms[2][2], p[2]));
  if constexpr (N >= 2) e.ensure("importTab:xy", e.eq(ms[0][1], p[3]));
  if constexpr (N == 3) { e.ensure("importTab:xz", e.eq(ms[0][2], p[4])); e.ensure("importTab:yz", e.eq(ms[1][2], p[5])); }
  T q[6];
  s.exportTab(q);
  for (unsigned short i = 0; i < n; ++i) e.ensure("exportTab(importTab(p))=p[" + std::to_string(i) + "]", e.eq(q[i], p[i]));
  const auto t = sym_stensor<N>(e, "t");
  T w[6];
  t.exportTab(w);
  stensor<N, T> t2;
  t2.importTab(static_cast<const T*>(w));
  for (unsigned short i = 0; i < n; ++i) e.ensure("importTab(exportTab(t))=t[" + std::to_string(i) + "]", e.eq(t2[i], t[i]));
  // strain-like Voigt array: engineering shears gamma_ij = 2 eps_ij
  stensor<N, T> v;
  v.importVoigt(static_cast<const T*>(p));
  auto mv = M<N, T>(e, v);
  e.ensure("importVoigt:xx", e.eq(mv[0][0], p[0]));
  e.ensure("importVoigt:yy", e.eq(mv[1][1], p[1]));
  e.ensure("importVoigt:zz", e.eq(mv[2][2], p[2]));
  if constexpr (N >= 2) e.ensure("importVoigt:gamma_xy=2.eps_xy", e.eq(T(2) * mv[0][1], p[3]));
  if constexpr (N == 3) { e.ensure("importVoigt:gamma_xz=2.eps_xz", e.eq(T(2) * mv[0][2], p[4])); e.ensure("importVoigt:gamma_yz=2.eps_yz", e.eq(T(2) * mv[1][2], p[5])); }
  // import / write: raw component copy
  stensor<N, T> c;
  c.import(static_cast<const T*>(p));
  T o[6];
  c.write(o);
  for (unsigned short i = 0; i < n; ++i) { e.ensure("import(p)[" + std::to_string(i) + "]=p", e.eq(c[i], p[i])); e.ensure("write(import(p))=p[" + std::to_string(i) + "]", e.eq(o[i], p[i])); }
}
template <unsigned short N, class E> void c_components(E& e) {
  using T = typename E::real;
  const auto s = sym_stensor<N>(e, "s");
  const auto m = M<N, T>(e, s);
  const unsigned short d = N;  // valid indices: diagonal always; off-diagonal within the space dimension
  for (unsigned short i = 0; i < 3; ++i) for (unsigned short j = 0; j < 3; ++j) {
    const bool valid = (i == j) || (i < d && j < d && d >= 2);
    if (!valid) continue;
    const std::string ij = std::to_string(i) + std::to_string(j);
    e.ensure("getComponent(s," + ij + ")=M_" + ij, e.eq(T(getComponent(s, i, j)), m[i][j]));
    stensor<N, T> a = s;
    const T x = e.var("x");
    setComponent<T>(a, i, j, x);
    const auto ma = M<N, T>(e, a);
    for (int k = 0; k < 3; ++k) for (int l = 0; l < 3; ++l) {
      const bool touched = (k == i && l == j) || (k == j && l == i);
      e.ensure("setComponent(" + ij + "):M_" + std::to_string(k) + std::to_string(l) + (touched ? "=x" : " unchanged"), e.eq(ma[k][l], touched ? x : m[k][l]));
    }
  }
}
template <unsigned short N, class E> void c_diadic(E& e) {
  using T = typename E::real;
  auto u = sym_tvector(e, "u");
  auto v = sym_tvector(e, "v");
  const stensor<N, T> a = stensor<N, T>::buildFromVectorDiadicProduct(u);
  const stensor<N, T> b = stensor<N, T>::buildFromVectorsSymmetricDiadicProduct(u, v);
  const auto ma = M<N, T>(e, a), mb = M<N, T>(e, b);
  for (int i = 0; i < 3; ++i) for (int j = 0; j < 3; ++j) {
    const bool in = (i == j) || (N == 3) || (N == 2 && i < 2 && j < 2);
    if (!in) continue;
    const std::string ij = "[" + std::to_string(i) + std::to_string(j) + "]";
    e.ensure("M(u(x)u)" + ij, e.eq(ma[i][j], u(i) * u(j)));
    e.ensure("M(u(x)v+v(x)u)" + ij, e.eq(mb[i][j], u(i) * v(j) + v(i) * u(j)));
  }
}
#define C01_ALL(N)                                                            \
  VSYM_CONTRACT("stensor" #N "/trace-det", (c_trace_det<N##u>))               \
  VSYM_CONTRACT("stensor" #N "/invert", (c_invert<N##u>))                     \
  VSYM_CONTRACT("stensor" #N "/square", (c_square<N##u>))                     \
  VSYM_CONTRACT("stensor" #N "/symmetric_product", (c_symmetric_product<N##u>)) \
  VSYM_CONTRACT("stensor" #N "/deviator-sigmaeq", (c_deviator_sigmaeq<N##u>)) \
  VSYM_CONTRACT("stensor" #N "/contraction", (c_contraction<N##u>)) \
  VSYM_CONTRACT("stensor" #N "/change_basis", (c_change_basis<N##u>))         \
  VSYM_CONTRACT("stensor" #N "/matrix-conversions", (c_matrix_conversions<N##u>)) \
  VSYM_CONTRACT("stensor" #N "/voigt", (c_voigt<N##u>))                       \
  VSYM_CONTRACT("stensor" #N "/components", (c_components<N##u>))             \
  VSYM_CONTRACT("stensor" #N "/diadic", (c_diadic<N##u>))
C01_ALL(1)
C01_ALL(2)
C01_ALL(3)
int main(int argc, char** argv) { return vsym::driver_main(argc, argv); }
