"""C06 — closed-form derivative helpers are true derivatives (E2, proof over the reals)."""
from engines.symvc.discharge import run_spec


def run(ctx):
    ctx.trust("vsym symbolic differentiation rules (sum, product, quotient, y=x^(1/k) through y^k=x): engines/symvc/vsym/driver.hxx:diff_rec")
    ctx.assume("derivatives with respect to a symmetric tensor are taken in Mandel components (TFEL convention)",
               "derivative obligations are not replayable on doubles (no finite-difference oracle in the replay mode): a failure is reported with no-failing-input-found")
    run_spec(ctx, expect_min=300)
