// C06 — closed-form derivative helpers are true derivatives (E2). Both sides are real code run on vsym::sym:
// the helper's output is compared with the exact symbolic derivative of the primal function's output.
// Derivatives with respect to a symmetric tensor are taken in Mandel components (TFEL's convention: the Mandel
// basis is orthonormal, so the gradient components are the partial derivatives with respect to the stored components).
#include "vsym/traits.hxx"
#include "TFEL/Math/stensor.hxx"
#include "TFEL/Math/tensor.hxx"
#include "TFEL/Math/st2tost2.hxx"
#include "TFEL/Math/t2tost2.hxx"
#include "TFEL/Math/t2tot2.hxx"
#include "vsym/driver.hxx"
#include "common/mandel.hxx"
using namespace tfel::math;
using namespace spec;
static std::string ij(unsigned i, unsigned j) { return "(" + std::to_string(i) + "," + std::to_string(j) + ")"; }

template <unsigned short N, class E> void c_det_derivatives(E& e) {
  using T = typename E::real;
  const auto s = sym_stensor<N>(e, "s");
  const T J = det(s);
  const stensor<N, T> dJ = computeDeterminantDerivative(s);
  for (unsigned short k = 0; k < s.size(); ++k) e.ensure("computeDeterminantDerivative[" + std::to_string(k) + "]=d(det)/ds", e.eq(dJ[k], e.d(J, s[k])));
  const st2tost2<N, T> d2J = computeDeterminantSecondDerivative(s);
  for (unsigned short i = 0; i < s.size(); ++i) for (unsigned short j = 0; j < s.size(); ++j)
    e.ensure("computeDeterminantSecondDerivative" + ij(i, j) + "=d(dJ_i)/ds_j", e.eq(d2J(i, j), e.d(dJ[i], s[j])));
}
template <unsigned short N, class E> void c_deviator_det_derivatives(E& e) {
  using T = typename E::real;
  const auto s = sym_stensor<N>(e, "s");
  const stensor<N, T> dev = deviator(s);
  const T J3 = det(dev);
  const stensor<N, T> dJ = computeDeviatorDeterminantDerivative(s);
  for (unsigned short k = 0; k < s.size(); ++k) e.ensure("computeDeviatorDeterminantDerivative[" + std::to_string(k) + "]=d(det(dev s))/ds", e.eq(dJ[k], e.d(J3, s[k])));
  const st2tost2<N, T> d2J = computeDeviatorDeterminantSecondDerivative(s);
  for (unsigned short i = 0; i < s.size(); ++i) for (unsigned short j = 0; j < s.size(); ++j)
    e.ensure("computeDeviatorDeterminantSecondDerivative" + ij(i, j) + "=d(dJ_i)/ds_j", e.eq(d2J(i, j), e.d(dJ[i], s[j])));
}
template <unsigned short N, class E> void c_dsquare(E& e) {
  using T = typename E::real;
  const auto s = sym_stensor<N>(e, "s");
  const stensor<N, T> s2 = square(s);
  const st2tost2<N, T> D = st2tost2<N, T>::dsquare(s);
  for (unsigned short i = 0; i < s.size(); ++i) for (unsigned short j = 0; j < s.size(); ++j)
    e.ensure("dsquare" + ij(i, j) + "=d(square(s)_i)/ds_j", e.eq(D(i, j), e.d(s2[i], s[j])));
}
template <unsigned short N, class E> void c_cauchy_green_derivatives(E& e) {
  using T = typename E::real;
  const auto F = sym_tensor<N>(e, "F");
  const stensor<N, T> C = computeRightCauchyGreenTensor(F);
  const stensor<N, T> B = computeLeftCauchyGreenTensor(F);
  // the primal functions themselves: C = F^T F, B = F F^T
  const auto mF = Tm<N, T>(F);
  ensure_mat_eq(e, "M(computeRightCauchyGreenTensor(F))=FT.F", M<N, T>(e, C), mul(tr(mF), mF));
  ensure_mat_eq(e, "M(computeLeftCauchyGreenTensor(F))=F.FT", M<N, T>(e, B), mul(mF, tr(mF)));
  const t2tost2<N, T> dC = t2tost2<N, T>::dCdF(F);
  const t2tost2<N, T> dB = t2tost2<N, T>::dBdF(F);
  for (unsigned short i = 0; i < C.size(); ++i) for (unsigned short j = 0; j < F.size(); ++j) {
    e.ensure("dCdF" + ij(i, j) + "=dC_i/dF_j", e.eq(dC(i, j), e.d(C[i], F[j])));
    e.ensure("dBdF" + ij(i, j) + "=dB_i/dF_j", e.eq(dB(i, j), e.d(B[i], F[j])));
  }
}
template <unsigned short N, class E> void c_tensor_product_derivatives(E& e) {
  using T = typename E::real;
  const auto A = sym_tensor<N>(e, "A");
  const auto B = sym_tensor<N>(e, "B");
  const tensor<N, T> P = A * B;
  ensure_mat_eq(e, "T(A*B)=T(A).T(B)", Tm<N, T>(P), mul(Tm<N, T>(A), Tm<N, T>(B)));
  const t2tot2<N, T> L = t2tot2<N, T>::tpld(B);
  const t2tot2<N, T> R = t2tot2<N, T>::tprd(A);
  for (unsigned short i = 0; i < P.size(); ++i) for (unsigned short j = 0; j < A.size(); ++j) {
    e.ensure("tpld(B)" + ij(i, j) + "=d(A*B)_i/dA_j", e.eq(L(i, j), e.d(P[i], A[j])));
    e.ensure("tprd(A)" + ij(i, j) + "=d(A*B)_i/dB_j", e.eq(R(i, j), e.d(P[i], B[j])));
  }
}
template <unsigned short N, class E> void c_tensor_det_derivatives(E& e) {
  using T = typename E::real;
  const auto F = sym_tensor<N>(e, "F");
  const T J = det(F);
  e.ensure("det(F)=det3(T(F))", e.eq(J, det3(Tm<N, T>(F))));
  const tensor<N, T> dJ = computeDeterminantDerivative(F);
  for (unsigned short k = 0; k < F.size(); ++k) e.ensure("computeDeterminantDerivative(tensor)[" + std::to_string(k) + "]=d(det F)/dF", e.eq(dJ[k], e.d(J, F[k])));
  // convention of the tensor version (tests/Math/t2tot2/ComputeTensorDeterminantSecondDerivativeTest.cxx): the derivative of
  // F -> det(F).F^-1, i.e. of the transposed gradient (dJ/dF = J.F^-T); the first index is therefore transposed with
  // respect to the Hessian of det
  e.require(!e.eq(J, T(0)));
  const tensor<N, T> JiF = J * invert(F);
  ensure_mat_eq(e, "det(F).invert(F)=transpose(dJ/dF)", Tm<N, T>(JiF), tr(Tm<N, T>(dJ)));
  const t2tot2<N, T> d2J = computeDeterminantSecondDerivative(F);
  for (unsigned short i = 0; i < F.size(); ++i) for (unsigned short j = 0; j < F.size(); ++j)
    e.ensure("computeDeterminantSecondDerivative(tensor)" + ij(i, j) + "=d(det(F).invert(F))_i/dF_j", e.eq(d2J(i, j), e.d(JiF[i], F[j])));
}
#define C06_ALL(N)                                                                         \
  VSYM_CONTRACT("stensor" #N "/determinant-derivatives", (c_det_derivatives<N##u>))         \
  VSYM_CONTRACT("stensor" #N "/deviator-determinant-derivatives", (c_deviator_det_derivatives<N##u>)) \
  VSYM_CONTRACT("stensor" #N "/dsquare", (c_dsquare<N##u>))                                 \
  VSYM_CONTRACT("tensor" #N "/dCdF-dBdF", (c_cauchy_green_derivatives<N##u>))               \
  VSYM_CONTRACT("tensor" #N "/tpld-tprd", (c_tensor_product_derivatives<N##u>))             \
  VSYM_CONTRACT("tensor" #N "/determinant-derivatives", (c_tensor_det_derivatives<N##u>))
C06_ALL(1)
C06_ALL(2)
C06_ALL(3)
int main(int argc, char** argv) { return vsym::driver_main(argc, argv); }
