// C06 — closed-form derivative helpers are true derivatives (E2). Both sides are real code run on vsym::sym:
// the helper's output is compared with the exact symbolic derivative of the primal function's output.
// Derivatives with respect to a symmetric tensor are taken in Mandel components (TFEL's convention: the Mandel
// basis is orthonormal, so the gradient components are the partial derivatives with respect to the stored components).
#include "vsym/traits.hxx"
#include "TFEL/Math/stensor.hxx"
#include "TFEL/Math/tensor.hxx"
#include "TFEL/Math/st2tost2.hxx"
#include "TFEL/Math/t2tost2.hxx"
#include "TFEL/Math/t2tot2.hxx"
#include "TFEL/Math/T2toT2/ConvertToPK1Derivative.hxx"
#include "TFEL/Math/T2toT2/ConvertFromPK1Derivative.hxx"
#include "vsym/driver.hxx"
#include "common/mandel.hxx"
using namespace tfel::math;
using namespace spec;
static std::string ij(unsigned i, unsigned j) { return "(" + std::to_string(i) + "," + std::to_string(j) + ")"; }

template <unsigned short N, class E> void c_det_derivatives(E& e) {
  using T = typename E::real;
  const auto s = sym_stensor<N>(e, "s");
  const T J = det(s);
  const stensor<N, T> dJ = computeDeterminantDerivative(s);
  for (unsigned short k = 0; k < s.size(); ++k) e.ensure("computeDeterminantDerivative[" + std::to_string(k) + "]=d(det)/ds", e.eq(dJ[k], e.d(J, s[k])));
  const st2tost2<N, T> d2J = computeDeterminantSecondDerivative(s);
  for (unsigned short i = 0; i < s.size(); ++i) for (unsigned short j = 0; j < s.size(); ++j)
    e.ensure("computeDeterminantSecondDerivative" + ij(i, j) + "=d(dJ_i)/ds_j", e.eq(d2J(i, j), e.d(dJ[i], s[j])));
}
template <unsigned short N, class E> void c_deviator_det_derivatives(E& e) {
  using T = typename E::real;
  const auto s = sym_stensor<N>(e, "s");
  const stensor<N, T> dev = deviator(s);
  const T J3 = det(dev);
  const stensor<N, T> dJ = computeDeviatorDeterminantDerivative(s);
  for (unsigned short k = 0; k < s.size(); ++k) e.ensure("computeDeviatorDeterminantDerivative[" + std::to_string(k) + "]=d(det(dev s))/ds", e.eq(dJ[k], e.d(J3, s[k])));
  const st2tost2<N, T> d2J = computeDeviatorDeterminantSecondDerivative(s);
  for (unsigned short i = 0; i < s.size(); ++i) for (unsigned short j = 0; j < s.size(); ++j)
    e.ensure("computeDeviatorDeterminantSecondDerivative" + ij(i, j) + "=d(dJ_i)/ds_j", e.eq(d2J(i, j), e.d(dJ[i], s[j])));
}
template <unsigned short N, class E> void c_dsquare(E& e) {
  using T = typename E::real;
  const auto s = sym_stensor<N>(e, "s");
  const stensor<N, T> s2 = square(s);
  const st2tost2<N, T> D = st2tost2<N, T>::dsquare(s);
  for (unsigned short i = 0; i < s.size(); ++i) for (unsigned short j = 0; j < s.size(); ++j)
    e.ensure("dsquare" + ij(i, j) + "=d(square(s)_i)/ds_j", e.eq(D(i, j), e.d(s2[i], s[j])));
}
template <unsigned short N, class E> void c_cauchy_green_derivatives(E& e) {
  using T = typename E::real;
  const auto F = sym_tensor<N>(e, "F");
  const stensor<N, T> C = computeRightCauchyGreenTensor(F);
  const stensor<N, T> B = computeLeftCauchyGreenTensor(F);
  // the primal functions themselves: C = F^T F, B = F F^T
  const auto mF = Tm<N, T>(F);
  ensure_mat_eq(e, "M(computeRightCauchyGreenTensor(F))=FT.F", M<N, T>(e, C), mul(tr(mF), mF));
  ensure_mat_eq(e, "M(computeLeftCauchyGreenTensor(F))=F.FT", M<N, T>(e, B), mul(mF, tr(mF)));
  const t2tost2<N, T> dC = t2tost2<N, T>::dCdF(F);
  const t2tost2<N, T> dB = t2tost2<N, T>::dBdF(F);
  for (unsigned short i = 0; i < C.size(); ++i) for (unsigned short j = 0; j < F.size(); ++j) {
    e.ensure("dCdF" + ij(i, j) + "=dC_i/dF_j", e.eq(dC(i, j), e.d(C[i], F[j])));
    e.ensure("dBdF" + ij(i, j) + "=dB_i/dF_j", e.eq(dB(i, j), e.d(B[i], F[j])));
  }
}
template <unsigned short N, class E> void c_tensor_product_derivatives(E& e) {
  using T = typename E::real;
  const auto A = sym_tensor<N>(e, "A");
  const auto B = sym_tensor<N>(e, "B");
  const tensor<N, T> P = A * B;
  ensure_mat_eq(e, "T(A*B)=T(A).T(B)", Tm<N, T>(P), mul(Tm<N, T>(A), Tm<N, T>(B)));
  const t2tot2<N, T> L = t2tot2<N, T>::tpld(B);
  const t2tot2<N, T> R = t2tot2<N, T>::tprd(A);
  for (unsigned short i = 0; i < P.size(); ++i) for (unsigned short j = 0; j < A.size(); ++j) {
    e.ensure("tpld(B)" + ij(i, j) + "=d(A*B)_i/dA_j", e.eq(L(i, j), e.d(P[i], A[j])));
    e.ensure("tprd(A)" + ij(i, j) + "=d(A*B)_i/dB_j", e.eq(R(i, j), e.d(P[i], B[j])));
  }
}
template <unsigned short N, class E> void c_tensor_det_derivatives(E& e) {
  using T = typename E::real;
  const auto F = sym_tensor<N>(e, "F");
  const T J = det(F);
  e.ensure("det(F)=det3(T(F))", e.eq(J, det3(Tm<N, T>(F))));
  const tensor<N, T> dJ = computeDeterminantDerivative(F);
  for (unsigned short k = 0; k < F.size(); ++k) e.ensure("computeDeterminantDerivative(tensor)[" + std::to_string(k) + "]=d(det F)/dF", e.eq(dJ[k], e.d(J, F[k])));
  // convention of the tensor version (tests/Math/t2tot2/ComputeTensorDeterminantSecondDerivativeTest.cxx): the derivative of
  // F -> det(F).F^-1, i.e. of the transposed gradient (dJ/dF = J.F^-T); the first index is therefore transposed with
  // respect to the Hessian of det
  e.require(!e.eq(J, T(0)));
  const tensor<N, T> JiF = J * invert(F);
  ensure_mat_eq(e, "det(F).invert(F)=transpose(dJ/dF)", Tm<N, T>(JiF), tr(Tm<N, T>(dJ)));
  const t2tot2<N, T> d2J = computeDeterminantSecondDerivative(F);
  for (unsigned short i = 0; i < F.size(); ++i) for (unsigned short j = 0; j < F.size(); ++j)
    e.ensure("computeDeterminantSecondDerivative(tensor)" + ij(i, j) + "=d(det(F).invert(F))_i/dF_j", e.eq(d2J(i, j), e.d(JiF[i], F[j])));
}

// ---- two-argument tensor-product derivatives: d(A(X).B)/dX knowing dA/dX = C, and d(A.B(X))/dX knowing dB/dX = C ----
template <unsigned short N, class E> void c_tensor_product_chain(E& e) {
  using T = typename E::real;
  if constexpr (E::can_differentiate) {
    const auto X = sym_tensor<N>(e, "X");
    const auto K0 = sym_tensor<N>(e, "K");   // constant part of the affine map
    const auto Z = sym_tensor<N>(e, "Z");    // the other (constant) factor
    t2tot2<N, T> C;
    for (unsigned short i = 0; i < X.size(); ++i) for (unsigned short j = 0; j < X.size(); ++j) C(i, j) = e.var("C" + std::to_string(i) + "_" + std::to_string(j));
    tensor<N, T> AX = K0;  // affine tensor-valued function of X with derivative C
    for (unsigned short i = 0; i < X.size(); ++i) for (unsigned short j = 0; j < X.size(); ++j) AX[i] = AX[i] + C(i, j) * X[j];
    const tensor<N, T> PL = AX * Z;
    const t2tot2<N, T> L = t2tot2<N, T>::tpld(Z, C);
    const tensor<N, T> PR = Z * AX;
    const t2tot2<N, T> R = t2tot2<N, T>::tprd(Z, C);
    for (unsigned short i = 0; i < X.size(); ++i) for (unsigned short j = 0; j < X.size(); ++j) {
      e.ensure("tpld(B,C)" + ij(i, j) + "=d(A(X)*B)_i/dX_j with dA/dX=C", e.eq(L(i, j), e.d(PL[i], X[j])));
      e.ensure("tprd(A,C)" + ij(i, j) + "=d(A*B(X))_i/dX_j with dB/dX=C", e.eq(R(i, j), e.d(PR[i], X[j])));
    }
  } else {
    e.ensure("derivative obligations are symbolic only", e.tru());
  }
}
// ---- first Piola-Kirchhoff derivative conversions: the Cauchy stress is an affine function of F with symbolic derivative ds ----
template <unsigned short N, class E> void c_pk1_derivatives(E& e) {
  using T = typename E::real;
  if constexpr (E::can_differentiate) {
    const auto F = sym_tensor<N>(e, "F");
    e.require(e.lt(T(0), det(F)));
    const auto a = sym_stensor<N>(e, "a");
    t2tost2<N, T> ds;
    for (unsigned short i = 0; i < a.size(); ++i) for (unsigned short j = 0; j < F.size(); ++j) ds(i, j) = e.var("ds" + std::to_string(i) + "_" + std::to_string(j));
    stensor<N, T> sig = a;  // sig(F) = a + ds.F : arbitrary value and arbitrary derivative at F
    for (unsigned short i = 0; i < a.size(); ++i) for (unsigned short j = 0; j < F.size(); ++j) sig[i] = sig[i] + ds(i, j) * F[j];
    const tensor<N, T> P = convertCauchyStressToFirstPiolaKirchhoffStress(sig, F);
    const t2tot2<N, T> dP = convertCauchyStressDerivativeToFirstPiolaKirchoffStressDerivative(ds, F, sig);
    for (unsigned short i = 0; i < F.size(); ++i) for (unsigned short j = 0; j < F.size(); ++j)
      e.ensure("DSIG_DF->DPK1_DF" + ij(i, j) + "=dP_i/dF_j", e.eq(dP(i, j), e.d(P[i], F[j])));
    // back: from the exact dP/dF to the derivative of the Kirchhoff stress tau = det(F).sig
    t2tot2<N, T> dPx;
    for (unsigned short i = 0; i < F.size(); ++i) for (unsigned short j = 0; j < F.size(); ++j) dPx(i, j) = e.d(P[i], F[j]);
    const stensor<N, T> tau = det(F) * sig;
    const t2tost2<N, T> dtau = convertFirstPiolaKirchoffStressDerivativeToKirchhoffStressDerivative(dPx, F, sig);
    for (unsigned short i = 0; i < a.size(); ++i) for (unsigned short j = 0; j < F.size(); ++j)
      e.ensure("DPK1_DF->DTAU_DF" + ij(i, j) + "=dtau_i/dF_j", e.eq(dtau(i, j), e.d(tau[i], F[j])));
  } else {
    e.ensure("derivative obligations are symbolic only", e.tru());
  }
}
// second Piola-Kirchhoff stress an affine function of the Green-Lagrange strain with symbolic derivative dS
template <unsigned short N, class E> void c_pk2_to_pk1_derivative(E& e) {
  using T = typename E::real;
  if constexpr (E::can_differentiate) {
    const auto F = sym_tensor<N>(e, "F");
    e.require(e.lt(T(0), det(F)));
    const auto a = sym_stensor<N>(e, "a");
    st2tost2<N, T> dS;
    for (unsigned short i = 0; i < a.size(); ++i) for (unsigned short j = 0; j < a.size(); ++j) dS(i, j) = e.var("dS" + std::to_string(i) + "_" + std::to_string(j));
    const stensor<N, T> egl = computeGreenLagrangeTensor(F);
    stensor<N, T> S = a;
    for (unsigned short i = 0; i < a.size(); ++i) for (unsigned short j = 0; j < a.size(); ++j) S[i] = S[i] + dS(i, j) * egl[j];
    const stensor<N, T> sig = convertSecondPiolaKirchhoffStressToCauchyStress(S, F);
    const tensor<N, T> P = convertCauchyStressToFirstPiolaKirchhoffStress(sig, F);
    const t2tot2<N, T> dP = convertSecondPiolaKirchhoffStressDerivativeToFirstPiolaKirchoffStressDerivative(dS, F, sig);
    for (unsigned short i = 0; i < F.size(); ++i) for (unsigned short j = 0; j < F.size(); ++j)
      e.ensure("DS_DEGL->DPK1_DF" + ij(i, j) + "=dP_i/dF_j", e.eq(dP(i, j), e.d(P[i], F[j])));
  } else {
    e.ensure("derivative obligations are symbolic only", e.tru());
  }
}
#define C06_ALL(N)                                                                         \
  VSYM_CONTRACT("stensor" #N "/determinant-derivatives", (c_det_derivatives<N##u>))         \
  VSYM_CONTRACT("stensor" #N "/deviator-determinant-derivatives", (c_deviator_det_derivatives<N##u>)) \
  VSYM_CONTRACT("stensor" #N "/dsquare", (c_dsquare<N##u>))                                 \
  VSYM_CONTRACT("tensor" #N "/dCdF-dBdF", (c_cauchy_green_derivatives<N##u>))               \
  VSYM_CONTRACT("tensor" #N "/tpld-tprd", (c_tensor_product_derivatives<N##u>))             \
  VSYM_CONTRACT("tensor" #N "/determinant-derivatives", (c_tensor_det_derivatives<N##u>))  \
  VSYM_CONTRACT("tensor" #N "/tpld-tprd-with-inner-derivative", (c_tensor_product_chain<N##u>)) \
  VSYM_CONTRACT("tensor" #N "/PK1-derivative-conversions", (c_pk1_derivatives<N##u>))       \
  VSYM_CONTRACT("tensor" #N "/PK2-to-PK1-derivative-conversion", (c_pk2_to_pk1_derivative<N##u>))
C06_ALL(1)
C06_ALL(2)
C06_ALL(3)
int main(int argc, char** argv) { return vsym::driver_main(argc, argv); }
