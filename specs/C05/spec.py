"""C05 — isotropic tensor functions from a given eigen decomposition (E2)."""
from engines.symvc.discharge import run_spec


def run(ctx):
    ctx.assume("the eigen solvers are NOT under contract (iterative / trigonometric, C03): the static members taking the eigenvalues vp and the eigenvector matrix m are; consequently logarithm, absolute_value, positive_part, negative_part, square_root (which call a solver first) are covered only through these members",
               "value: m.diag(f).m^T for every matrix m (1D, 2D, 3D)",
               "derivative: exact derivative of s -> s^k, k = 0..5, which by linearity in (f(vp_i), f'(vp_i)) (an obligation of its own) and Hermite interpolation is the derivative for every differentiable f at distinct eigenvalues; eps >= 1e-12 (away from the absolute ~1e-36 guards below which gaps count as repeated eigenvalues whatever eps), eigenvalue gaps larger than eps, or vp0 = vp1 exactly (centre of the regularised branch); the approximation made when 0 < |vp_i - vp_j| <= eps is the documented regularisation and is not checked",
               "rotations: 1D identity, 2D every in-plane rotation, 3D rotations about one coordinate axis (z in the quick tier, x and y in the thorough tier): general 3D rotations are NOT covered")
    run_spec(ctx, flags="-DVERIF_THOROUGH" if ctx.thorough else "", expect_min=100, per_timeout=600 if ctx.thorough else 120)
