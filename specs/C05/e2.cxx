// C05 — isotropic tensor functions from a given eigen decomposition (E2). The eigen solvers themselves are not under contract: the
// static members taking eigenvalues vp and the rotation m are. The value is m.diag(f).m^T. The derivative is compared with the exact
// derivative of the matrix power s -> s^k (X -> sum_j s^j X s^(k-1-j)), k = 0..5: both the code's result and the true derivative are
// linear in (f(vp_i), f'(vp_i)), and the six monomials span all such data for distinct eigenvalues (Hermite interpolation), so
// exactness on them is exactness for every differentiable f (the code's linearity is an obligation of its own).
#include "vsym/traits.hxx"
#include "TFEL/Math/stensor.hxx"
#include "TFEL/Math/st2tost2.hxx"
#include "vsym/driver.hxx"
#include "common/mandel.hxx"
using namespace tfel::math;
using namespace spec;

template <class T> T ipow_(const T& x, unsigned k) { T r = T(1); for (unsigned i = 0; i < k; ++i) r = r * x; return r; }
template <class T> mat3<T> mpow(const mat3<T>& a, unsigned k) { auto r = id3<T>(); for (unsigned i = 0; i < k; ++i) r = mul(r, a); return r; }

// rotation about one axis by an angle given through (c, s), c^2 + s^2 = 1; axis = 2: the in-plane rotation of the 2D hypotheses
template <class E> tmatrix<3, 3, typename E::real> axis_rotation(E& e, const unsigned axis) {
  using T = typename E::real;
  const T c = e.var("c"), s = e.var("s");
  e.require(e.eq(c * c + s * s, T(1)));
  tmatrix<3, 3, T> m;
  for (unsigned short i = 0; i < 3; ++i) for (unsigned short j = 0; j < 3; ++j) m(i, j) = T(i == j ? 1 : 0);
  const unsigned short a = (axis + 1) % 3, b = (axis + 2) % 3;
  m(a, a) = c; m(a, b) = -s; m(b, a) = s; m(b, b) = c;
  return m;
}
// value: m.diag(f).m^T for any matrix m (no orthogonality needed: the code sums f_i v_i v_i^T over the columns)
template <unsigned short N, class E> void c_value(E& e) {
  using T = typename E::real;
  tvector<3, T> f;
  for (unsigned short i = 0; i < 3; ++i) f(i) = e.var("f" + std::to_string(i));
  tmatrix<3, 3, T> m;
  for (unsigned short i = 0; i < 3; ++i) for (unsigned short j = 0; j < 3; ++j) m(i, j) = T(i == j ? 1 : 0);
  if constexpr (N >= 2) { m(0, 0) = e.var("m00"); m(0, 1) = e.var("m01"); m(1, 0) = e.var("m10"); m(1, 1) = e.var("m11"); }
  if constexpr (N == 3) { for (unsigned short i = 0; i < 3; ++i) for (unsigned short j = 0; j < 3; ++j) m(i, j) = e.var("m" + std::to_string(i) + std::to_string(j)); }
  const stensor<N, T> r = stensor<N, T>::computeIsotropicFunction(f, m);
  auto dm = zero3<T>();
  for (int i = 0; i < 3; ++i) dm[i][i] = f(i);
  const auto mm = of_tmatrix(m);
  ensure_mat_eq(e, "computeIsotropicFunction(f, m) = m.diag(f).m^T", M<N, T>(e, r), mul(mul(mm, dm), tr(mm)));
  const stensor<N, T> r2 = stensor<N, T>::computeIsotropicFunction([&](const T& x) { return x * x * x - T(2) * x; }, f, m);
  auto dm2 = zero3<T>();
  for (int i = 0; i < 3; ++i) dm2[i][i] = f(i) * f(i) * f(i) - T(2) * f(i);
  ensure_mat_eq(e, "computeIsotropicFunction(function, vp, m) applies the function to each eigenvalue", M<N, T>(e, r2), mul(mul(mm, dm2), tr(mm)));
}
// derivative, distinct eigenvalues (case 0) or vp0 = vp1 exactly (case 1: the regularised branch at its centre)
template <unsigned short N, unsigned axis, unsigned kase, class E> void c_derivative(E& e) {
  using T = typename E::real;
  tvector<3, T> vp;
  vp(0) = e.var("l0");
  vp(1) = kase == 1 ? vp(0) : e.var("l1");
  vp(2) = e.var("l2");
  const T eps = e.var("eps");
  // eps well above the absolute 1e-36 guards of the eigen-tensor derivatives (gaps below those are treated as repeated eigenvalues whatever eps)
  e.require(e.le(T(1) / T(1000000000000ll), eps));
  // all eigenvalue gaps larger than eps, except the pair merged in case 1
  auto far = [&](const T& a, const T& b) { return e.lt(eps, a - b) || e.lt(eps, b - a); };
  if (kase == 0) e.require(far(vp(0), vp(1)));
  e.require(far(vp(0), vp(2)) && far(vp(1), vp(2)));
  tmatrix<3, 3, T> m;
  if constexpr (N == 1) { for (unsigned short i = 0; i < 3; ++i) for (unsigned short j = 0; j < 3; ++j) m(i, j) = T(i == j ? 1 : 0); }
  else m = axis_rotation(e, axis);
  const stensor<N, T> s = stensor<N, T>::computeIsotropicFunction(vp, m);
  const auto ms = M<N, T>(e, s);
  for (unsigned k = 0; k <= 5; ++k) {
    tvector<3, T> f, df;
    for (unsigned short i = 0; i < 3; ++i) { f(i) = ipow_(vp(i), k); df(i) = k == 0 ? T(0) : T(k) * ipow_(vp(i), k - 1); }
    const st2tost2<N, T> D = stensor<N, T>::computeIsotropicFunctionDerivative(f, df, vp, m, eps);
    for (unsigned short a = 0; a < s.size(); ++a) {
      stensor<N, T> X(T(0));
      X[a] = T(1);
      const stensor<N, T> DX = D * X;
      auto rhs = zero3<T>();
      const auto mX = M<N, T>(e, X);
      for (unsigned j = 0; j < k; ++j) rhs = add(rhs, mul(mul(mpow(ms, j), mX), mpow(ms, k - 1 - j)));
      ensure_mat_eq(e, "d(s^" + std::to_string(k) + ")/ds applied to basis tensor " + std::to_string(a), M<N, T>(e, DX), rhs);
    }
  }
  // linearity of the code in the function data
  {
    tvector<3, T> f, df, g, dg, h, dh;
    const T al = e.var("alpha"), be = e.var("beta");
    for (unsigned short i = 0; i < 3; ++i) {
      f(i) = e.var("f" + std::to_string(i)); df(i) = e.var("df" + std::to_string(i));
      g(i) = e.var("g" + std::to_string(i)); dg(i) = e.var("dg" + std::to_string(i));
      h(i) = al * f(i) + be * g(i); dh(i) = al * df(i) + be * dg(i);
    }
    const st2tost2<N, T> Df = stensor<N, T>::computeIsotropicFunctionDerivative(f, df, vp, m, eps);
    const st2tost2<N, T> Dg = stensor<N, T>::computeIsotropicFunctionDerivative(g, dg, vp, m, eps);
    const st2tost2<N, T> Dh = stensor<N, T>::computeIsotropicFunctionDerivative(h, dh, vp, m, eps);
    for (unsigned short i = 0; i < s.size(); ++i) for (unsigned short j = 0; j < s.size(); ++j)
      e.ensure("linear in (f, df): entry (" + std::to_string(i) + "," + std::to_string(j) + ")", e.eq(Dh(i, j), al * Df(i, j) + be * Dg(i, j)));
  }
  // the function-object overload agrees with the value overload
  {
    const auto fn = [](const T& x) { return x * x * x; };
    const auto dfn = [](const T& x) { return T(3) * x * x; };
    tvector<3, T> f, df;
    for (unsigned short i = 0; i < 3; ++i) { f(i) = fn(vp(i)); df(i) = dfn(vp(i)); }
    const st2tost2<N, T> D1 = stensor<N, T>::computeIsotropicFunctionDerivative(fn, dfn, vp, m, eps);
    const st2tost2<N, T> D2 = stensor<N, T>::computeIsotropicFunctionDerivative(f, df, vp, m, eps);
    for (unsigned short i = 0; i < s.size(); ++i) for (unsigned short j = 0; j < s.size(); ++j)
      e.ensure("function-object overload = value overload (" + std::to_string(i) + "," + std::to_string(j) + ")", e.eq(D1(i, j), D2(i, j)));
  }
}
#define V(N) template <class E> void val_##N(E& e) { c_value<N>(e); } VSYM_CONTRACT("value/" #N "D", val_##N)
#define D(N, AX, K, NAME) template <class E> void der_##N##_##AX##_##K(E& e) { c_derivative<N, AX, K>(e); } VSYM_CONTRACT_P("derivative/" NAME, der_##N##_##AX##_##K, 60)
V(1) V(2) V(3)
D(1, 2, 0, "1D")
D(2, 2, 0, "2D/distinct eigenvalues")
D(2, 2, 1, "2D/vp0 = vp1")
D(3, 2, 0, "3D/rotation about z/distinct eigenvalues")
#ifdef VERIF_THOROUGH
D(3, 0, 0, "3D/rotation about x/distinct eigenvalues")
D(3, 1, 0, "3D/rotation about y/distinct eigenvalues")
D(3, 2, 1, "3D/rotation about z/vp0 = vp1")
#endif
int main(int argc, char** argv) { return vsym::driver_main(argc, argv); }
