from engines import replay as R


def replay(ctx, job, ob):
    ins = ob.inputs or {}
    o = ins.get("in_o", {}).get("data", "0")
    dyn = R.dyn_values(ins)
    if job.name == "sortEigenValues":
        v = [ins["in_vp.v[%d]" % i]["binary"] for i in range(3)]
        m = []
    else:
        flat = [b for obj in dyn for b in obj]
        if job.name.startswith("SortEigenValues"):
            v, m = flat[:3], []
        elif job.name == "fses_sort":
            m, v = flat[:9], flat[9:12]
        else:
            v, m = flat[:3], flat[3:12]
    if len(v) < 3:
        return None
    args = [job.name, o] + [R.bits_hex(b) for b in v] + [R.bits_hex(b) for b in m]
    ok, out = R.native(ctx, "C04.cxx", args)
    ob.detail += " | native replay: " + out.strip().replace("\n", " ; ")[-300:]
    return ok
