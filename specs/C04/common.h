/* C04 common spec vocabulary. T = double: eigenvalues of a finite tensor (no NaN; +-0 and
 * +-inf allowed). Equality of values is bitwise (SAMEV) so that -0/+0 are told apart. */
#include "prelude.h"
typedef double T;
typedef double ValueType;
typedef double real;
typedef struct { T v[3]; } tvec3;
typedef struct { T v[9]; } tmat33; /* row-major, as FixedSizeRowMajorMatrixPolicy */
enum { ASCENDING = 0, DESCENDING = 1, UNSORTED = 2 };
#define stensor_common_ASCENDING ASCENDING
#define stensor_common_DESCENDING DESCENDING
#define stensor_common_UNSORTED UNSORTED
#define EigenValuesOrdering_ASCENDING ASCENDING
#define EigenValuesOrdering_DESCENDING DESCENDING
#define EigenValuesOrdering_UNSORTED UNSORTED
#define NOTNAN(x) ((x) == (x))
#define SAMEV(a, b) ((a) == (b) && __CPROVER_signd(a) == __CPROVER_signd(b))
/* matrix entries may be anything, NaN included: same NaN-ness or same value */
#define SAMEM(a, b) (SAMEV(a, b) || (__CPROVER_isnand(a) && __CPROVER_isnand(b)))
#define ORDER_OK(o) ((o) == ASCENDING || (o) == DESCENDING || (o) == UNSORTED)
#define SORTED(o, r0, r1, r2) \
  (((o) == ASCENDING ==> ((r0) <= (r1) && (r1) <= (r2))) && ((o) == DESCENDING ==> ((r0) >= (r1) && (r1) >= (r2))))
#define IS3(r0, r1, r2, a, b, c) (SAMEV(r0, a) && SAMEV(r1, b) && SAMEV(r2, c))
#define PERM3(r0, r1, r2, a, b, c)                                                   \
  (IS3(r0, r1, r2, a, b, c) || IS3(r0, r1, r2, a, c, b) || IS3(r0, r1, r2, b, a, c) || \
   IS3(r0, r1, r2, b, c, a) || IS3(r0, r1, r2, c, a, b) || IS3(r0, r1, r2, c, b, a))
#define ASSIGN3(x, a, b, c) do { __typeof__((x).v[0]) _a = (a), _b = (b), _c = (c); (x).v[0] = _a; (x).v[1] = _b; (x).v[2] = _c; } while (0)
#define ASSIGN9(x, a, b, c, d, e, f, g, h, i) do { T _q[9] = {a, b, c, d, e, f, g, h, i}; for (int _k = 0; _k < 9; ++_k) (x).v[_k] = _q[_k]; } while (0)
/* vocabulary of the eigenvector-sorting contracts (objects p_vp: tvec3*, p_m: tmat33*) */
#define VP_(i) (p_vp->v[(i)])
#define M_(i, j) (p_m->v[(i) * 3 + (j)])
#define OLDV(k) __CPROVER_old(p_vp->v[k])
#define OLDM(i, k) __CPROVER_old(p_m->v[(i) * 3 + (k)])
#define COL_IS(k, a) (SAMEV(VP_(k), OLDV(a)) && SAMEM(M_(0, k), OLDM(0, a)) && SAMEM(M_(1, k), OLDM(1, a)) && SAMEM(M_(2, k), OLDM(2, a)))
#define PERMCOLS(a, b, c) (COL_IS(0, a) && COL_IS(1, b) && COL_IS(2, c))
#define FRESH2 (__CPROVER_is_fresh(p_vp, sizeof(tvec3)) && __CPROVER_is_fresh(p_m, sizeof(tmat33)))
