"""C04 — requested eigenvalue ordering honoured, ties included (E1, loop-free => complete)."""
from engines.cbmcc.run import Job, run_jobs

INC = "include/TFEL/Math/Stensor/"
RET3 = {"name": "return-braced-3", "re": r"return\s*\{([^{}]*)\}\s*;", "sub": r"return (tvec3){{\1}};"}
R_SWAPCALL = {"name": "lambda-call-by-reference", "re": r"\b(swap_if_\w+)\((\w+),\s*(\w+)\)", "sub": r"\1(&(\2), &(\3))", "min": 6}
R_DROP_LAMBDAS = {"name": "drop-lambda-definitions (extracted separately)",
                  "re": r"auto\s+swap_if_\w+\s*=\s*\[\]\([^)]*\)\s*\{(?:[^{}]|\{[^{}]*\})*\};", "sub": "", "min": 2}
R_SIZE_T = {"name": "size_type-alias", "re": r"using size_type = decltype\(vp\.size\(\)\);", "sub": "", "min": 1}
R_IDX_DECL = {"name": "idx-declaration", "re": r"tfel::math::tvector<3u, decltype\(vp\.size\(\)\)> idx = \{([^{}]*)\};",
              "sub": r"idx3 idx = {{\1}};", "min": 1}
R_IDX_ASSIGN = {"name": "idx-braced-assign", "re": r"\bidx = \{([^{}]*)\};", "sub": r"ASSIGN3(idx, \1);", "min": 12}
R_VP_OBJ = {"name": "vp-as-object", "re": r"\bvp\b(?!\s*[\(.\w])", "sub": "(*p_vp)", "min": 2}
R_M_OBJ = {"name": "m-as-object", "re": r"\bm\b(?!\s*[\(.\w])", "sub": "(*p_m)", "min": 2}
R_VP_ASSIGN = {"name": "vp-braced-assign", "re": r"\(\*p_vp\) = \{([^{}]*)\};", "sub": r"ASSIGN3((*p_vp), \1);", "min": 1}
R_M_ASSIGN = {"name": "m-braced-assign", "re": r"\(\*p_m\) = \{([^{}]*)\};", "sub": r"ASSIGN9((*p_m), \1);", "min": 1}

FS_RULES = [
    {"name": "using-aliases", "re": r"using size_type = unsigned short;\s*using real = GetVectorNumericType_t<VectorType>;", "sub": "", "min": 1},
    {"name": "size_type-literals", "re": r"constexpr auto (\w+) = size_type\{(\d)\};", "sub": r"const size_type \1 = \2;", "min": 3},
    {"name": "idx-declaration", "re": r"std::array<size_type, 3u> idx = \{([^{}]*)\};", "sub": r"size_type idx[3] = {\1};", "min": 1},
    {"name": "v2-declaration", "re": r"const std::array<real, 3u> v2 = \{([^{}]*)\};", "sub": r"const real v2[3] = {\1};", "min": 1},
    {"name": "m2-declaration", "re": r"const std::array<std::array<real, 3u>, 3u> m2 = \{([^{}]*)\};", "sub": r"const real m2[3][3] = {\1};", "min": 1},
    {"name": "idx-braced-assign", "re": r"\bidx = \{\s*(\w+),\s*(\w+),\s*(\w+)\s*\};", "sub": r"do { idx[0] = \1; idx[1] = \2; idx[2] = \3; } while (0);", "min": 12},
]

JOBS = [
    Job("sortEigenValues", "sortEigenValues.c.in", enforce="sortEigenValues", min_obligations=3,
        bodies=[dict(name="sortEigenValues", file=INC + "stensor.ixx",
                     pattern=r"constexpr tvector<3u, ValueType> sortEigenValues\(",
                     rules=[dict(RET3, min=12), {"name": "vp-index", "re": r"\bvp\[(\d)\]", "sub": r"vp.v[\1]", "min": 30}])],
        expect_labels=["sorted-in-requested-order", "permutation-of-input", "unsorted-is-identity"]),
    Job("SortEigenValues3", "SortEigenValues23.c.in", enforce="SortEigenValues3_exe", min_obligations=3,
        bodies=[dict(name="swap_if_greater", file=INC + "Internals/SortEigenValues.hxx", pattern=r"auto swap_if_greater = \[\]\(T& x, T& y\)"),
                dict(name="swap_if_lesser", file=INC + "Internals/SortEigenValues.hxx", pattern=r"auto swap_if_lesser = \[\]\(T& x, T& y\)"),
                dict(name="SortEigenValues3_exe", file=INC + "Internals/SortEigenValues.hxx",
                     pattern=r"static void exe\(T& vp0, T& vp1, T& vp2, const EigenValuesOrdering o\)", rules=[R_DROP_LAMBDAS, R_SWAPCALL]),
                dict(name="SortEigenValues2_exe", file=INC + "Internals/SortEigenValues.hxx",
                     pattern=r"static void exe\(T& vp0, T& vp1, T&, const EigenValuesOrdering o\)")],
        expect_labels=["sorted-in-requested-order", "permutation-of-input", "unsorted-is-identity"]),
]
JOBS.append(Job("SortEigenValues2", "SortEigenValues23.c.in", enforce="SortEigenValues2_exe", min_obligations=3,
                bodies=JOBS[1].bodies, expect_labels=["in-plane-pair-sorted", "permutation-of-input", "unsorted-is-identity"]))
SEV_BODIES = [
    dict(name="SortEigenVectors3_exe", file=INC + "Internals/SortEigenVectors.hxx",
         pattern=r"struct SortEigenVectors<3u> \{.*?static void exe\(tfel::math::tvector<3u, T>& vp,",
         rules=[R_SIZE_T, R_IDX_DECL, R_IDX_ASSIGN, R_VP_OBJ, R_M_OBJ, R_VP_ASSIGN, R_M_ASSIGN]),
    dict(name="SortEigenVectors2_exe", file=INC + "Internals/SortEigenVectors.hxx",
         pattern=r"struct SortEigenVectors<2u> \{.*?static void exe\(tfel::math::tvector<3u, T>& vp,"),
]
JOBS += [
    Job("SortEigenVectors3", "SortEigenVectors.c.in", enforce="SortEigenVectors3_exe", bodies=SEV_BODIES, min_obligations=3,
        expect_labels=["sorted-in-requested-order", "columns-permuted-with-eigenvalues", "unsorted-is-identity"]),
    Job("SortEigenVectors2", "SortEigenVectors.c.in", enforce="SortEigenVectors2_exe", bodies=SEV_BODIES, min_obligations=3,
        expect_labels=["in-plane-pair-sorted", "columns-permuted-with-eigenvalues", "unsorted-is-identity"]),
    Job("fses_sort", "fses_sort.c.in", enforce="fses_sort", min_obligations=3,
        bodies=[dict(name="fses_sort", file="include/FSES/Utilities.ixx",
                     pattern=r"void sort\(MatrixType& m, VectorType& v, const EigenValuesOrdering o\)", rules=FS_RULES)],
        expect_labels=["sorted-in-requested-order", "columns-permuted-with-eigenvalues", "unsorted-is-identity"]),
]

CALLER_BODIES = [
    dict(name="stensor_computeEigenValues", file=INC + "stensor.ixx",
         pattern=r"void stensor<N, T>::computeEigenValues\(\s*T& vp0, T& vp1, T& vp2, const EigenValuesOrdering o, const bool b\) const",
         rules=[{"name": "solver-call -> stub", "re": r"this->template computeEigenValues<es>\(vp0, vp1, vp2, b\);", "sub": "solver_computeEigenValues(&(vp0), &(vp1), &(vp2), b);", "min": 1},
                {"name": "sorter-call", "re": r"tfel::math::internals::SortEigenValues<N>::exe\(vp0, vp1, vp2, o\);", "sub": "SortEigenValuesN_exe(&(vp0), &(vp1), &(vp2), o);", "min": 1}]),
    dict(name="stensor_computeEigenVectors", file=INC + "stensor.ixx",
         pattern=r"void stensor<N, T>::computeEigenVectors\(\s*tvector<3u, T>& vp,\s*tmatrix<3u, 3u, base_type<T>>& m,\s*const EigenValuesOrdering o,\s*const bool b\) const",
         rules=[{"name": "solver-call -> stub", "re": r"this->template computeEigenVectors<es>\(vp, m, b\);", "sub": "solver_computeEigenVectors(p_vp, p_m, b);", "min": 1},
                {"name": "sorter-call", "re": r"tfel::math::internals::SortEigenVectors<N>::exe\(vp, m, o\);", "sub": "SortEigenVectorsN_exe(p_vp, p_m, o);", "min": 1}]),
]
# the tvector overloads: every call into the computeEigenValues / sortEigenValues family is mapped to its C counterpart
# (may-fire rules, so that a rewired wrapper is still extracted and then checked against the callees' contracts)
FAMILY_RULES = [
    {"name": "local tvector", "re": r"tvector<3u, T> vp;", "sub": "tvec3 vp;"},
    {"name": "call: 3-scalar sorted overload", "re": r"this->template computeEigenValues<es>\(vp\(0\), vp\(1\), vp\(2\), o, b\)", "sub": "stensor_computeEigenValues(&(vp).v[0], &(vp).v[1], &(vp).v[2], o, b)"},
    {"name": "call: 3-scalar unsorted overload (solver)", "re": r"this->template computeEigenValues<es>\(vp\(0\), vp\(1\), vp\(2\), b\)", "sub": "solver_computeEigenValues(&(vp).v[0], &(vp).v[1], &(vp).v[2], b)"},
    {"name": "call: tvector sorted overload", "re": r"this->template computeEigenValues<es>\(vp, o, b\)", "sub": "stensor_computeEigenValues_tv(&(vp), o, b)"},
    {"name": "call: tvector unsorted overload (solver)", "re": r"this->template computeEigenValues<es>\(vp, b\)", "sub": "solver_computeEigenValues_tv(&(vp), b)"},
    {"name": "call: sortEigenValues", "re": r"\bsortEigenValues\(vp, o\)", "sub": "sortEigenValues((vp), o)"},
    {"name": "tvector element", "re": r"\bvp\((\d)\)", "sub": r"(vp).v[\1]"},
    {"name": "no unmapped member call may remain", "forbid": r"this->"},
]
CALLER_BODIES += [
    dict(name="stensor_computeEigenValues_tv", file=INC + "stensor.ixx",
         pattern=r"void stensor<N, T>::computeEigenValues\(\s*tvector<3u, T>& vp, const EigenValuesOrdering o, const bool b\) const", rules=FAMILY_RULES),
    dict(name="stensor_computeEigenValues_ret", file=INC + "stensor.ixx",
         pattern=r"tvector<3u, T> stensor<N, T>::computeEigenValues\(\s*const EigenValuesOrdering o, const bool b\) const", rules=FAMILY_RULES),
]
REPL_FAMILY = ["solver_computeEigenValues", "solver_computeEigenValues_tv", "sortEigenValues"]
for n in (2, 3):
    JOBS.append(Job("computeEigenValues_tv_N%d" % n, "callers.c.in", enforce="stensor_computeEigenValues_tv", bodies=CALLER_BODIES,
                    replace=REPL_FAMILY + ["stensor_computeEigenValues"], defines=["NDIM=%d" % n], min_obligations=3,
                    expect_labels=["result-sorted-in-requested-order", "result-is-permutation-of-solver-output"]))
    JOBS.append(Job("computeEigenValues_ret_N%d" % n, "callers.c.in", enforce="stensor_computeEigenValues_ret", bodies=CALLER_BODIES,
                    replace=REPL_FAMILY + ["stensor_computeEigenValues", "stensor_computeEigenValues_tv"], defines=["NDIM=%d" % n], min_obligations=2,
                    expect_labels=["result-sorted-in-requested-order", "result-is-permutation-of-solver-output"]))
for n in (2, 3):
    JOBS.append(Job("computeEigenValues_N%d" % n, "callers.c.in", enforce="stensor_computeEigenValues", bodies=CALLER_BODIES,
                    replace=["solver_computeEigenValues", "SortEigenValuesN_exe"], defines=["NDIM=%d" % n], min_obligations=3,
                    expect_labels=["result-sorted-in-requested-order", "result-is-permutation-of-solver-output"]))
    JOBS.append(Job("computeEigenVectors_N%d" % n, "callers.c.in", enforce="stensor_computeEigenVectors", bodies=CALLER_BODIES,
                    replace=["solver_computeEigenVectors", "SortEigenVectorsN_exe"], defines=["NDIM=%d" % n], min_obligations=3,
                    expect_labels=["result-sorted-in-requested-order", "eigenpairs-are-permutation-of-solver-output"]))


def run(ctx):
    ctx.assume("eigenvalues are not NaN (requires x==x); +-0 and +-inf allowed; matrix entries are arbitrary doubles",
               "TFEL element access vp(i), m(i,j), fses::at and the braced initialisation of tvector/tmatrix are modelled as row-major array access (assumed contract)",
               "std::swap on scalars = three-assignment swap (assumed contract: libstdc++)",
               "the ordering argument is one of the three enumerators")
    ctx.notes.append("loop-free functions: the CBMC run is complete over all machine inputs; no unwinding involved")
    import importlib.util, os
    sp = importlib.util.spec_from_file_location("replay_c04", os.path.join(ctx.spec_dir, "replay_c04.py"))
    rp = importlib.util.module_from_spec(sp)
    sp.loader.exec_module(rp)
    run_jobs(ctx, JOBS, replay_fn=rp.replay)
