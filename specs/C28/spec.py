"""C28 — modelling hypotheses and axes conventions. Part 1 (E1): names and dimension tables, for every enum value and every string."""
import os
import re

from engines.cbmcc.run import Job, run_jobs
from engines.cbmcc import extract as X

F = "src/Material/ModellingHypothesis.cxx"
H = "include/TFEL/Material/ModellingHypothesis.hxx"
STR = {"name": "h == \"literal\" on std::string -> string equality on NUL-terminated buffers", "re": r"\(h == (\"\w+\")\)", "sub": r"(STR_EQ(h, \1))"}
STR2 = {"name": "if (h == \"literal\")", "re": r"\bif \(h == (\"\w+\")\)", "sub": r"if (STR_EQ(h, \1))"}
ENUMQ = {"name": "enum qualifier", "re": r"ModellingHypothesis::", "sub": ""}
def RAISE(ret):
    return {"name": "raise(message) -> ghost exception flag", "re": r"\braise\(.*?\);", "sub": "{ g_threw = 1; return %s; }" % ret, "min": 1, "max": 1}
NOCPP = {"name": "no unmapped C++ may remain", "forbid": r"std::|raise\(|==\s*\""}
BODIES = [
    dict(name="enum_Hypothesis", file=H, pattern=r"enum Hypothesis \{[^}]*\};", what="match", rules=[{"name": "anonymous C enum", "re": r"enum Hypothesis", "sub": "enum", "min": 1}]),
    dict(name="isModellingHypothesis", file=F, pattern=r"bool ModellingHypothesis::isModellingHypothesis\(const std::string& h\)", rules=[dict(STR, min=7, max=7), NOCPP]),
    dict(name="toString", file=F, pattern=r"std::string ModellingHypothesis::toString\(const Hypothesis h\)", rules=[RAISE('""'), NOCPP]),
    dict(name="toUpperCaseString", file=F, pattern=r"std::string ModellingHypothesis::toUpperCaseString\(const Hypothesis h\)", rules=[RAISE('""'), NOCPP]),
    dict(name="fromString", file=F, pattern=r"ModellingHypothesis::Hypothesis ModellingHypothesis::fromString\(", rules=[dict(STR2, min=7, max=7), RAISE("UNDEFINEDHYPOTHESIS"), NOCPP]),
    dict(name="getSpaceDimension", file=F, pattern=r"unsigned short getSpaceDimension\(const ModellingHypothesis::Hypothesis h\)", rules=[ENUMQ, RAISE("0"), NOCPP]),
    dict(name="getStensorSize", file=F, pattern=r"unsigned short getStensorSize\(const ModellingHypothesis::Hypothesis h\)", rules=[ENUMQ, RAISE("0"), NOCPP]),
    dict(name="getTensorSize", file=F, pattern=r"unsigned short getTensorSize\(const ModellingHypothesis::Hypothesis h\)", rules=[ENUMQ, RAISE("0"), NOCPP]),
]


def compile_time_tables(ctx, out):
    """The explicit specialisations ModellingHypothesisTo{SpaceDimension,StensorSize,TensorSize}<H>::value of the header, as C rows."""
    src = X.strip_comments(open(os.path.join(ctx.repo, H)).read())
    for key, name in (("SpaceDimension", "ct_space"), ("StensorSize", "ct_stensor"), ("TensorSize", "ct_tensor")):
        rows = re.findall(r"struct ModellingHypothesisTo%s<\s*ModellingHypothesis::(\w+)>\s*\{[^}]*?static constexpr unsigned short value = (\d+)u;" % key, src)
        if len(rows) != 7:
            raise X.ExtractionDrift("expected 7 specialisations of ModellingHypothesisTo%s, found %d" % (key, len(rows)))
        out[name] = "\n".join("  {%s, %s}," % (h, v) for h, v in rows)


def run(ctx):
    ctx.assume("std::string arguments are NUL-terminated buffers of at most 48 bytes (longer strings cannot equal any of the 7 names: complete for equality tests); std::string::operator== is strcmp == 0; returned names are the literals",
               "raise(...) is rendered as a ghost exception flag and end of path; message text dropped",
               "Part 2 of the property (PIPE/PLATE axes conventions on stress-free expansions, stiffness and Hill tensors) is checked by the E2 part of this spec")
    tables = {}
    try:
        compile_time_tables(ctx, tables)
    except X.ExtractionDrift as e:
        ctx.undecided("C28/compile-time-tables", "extraction drift: %s" % e)
        return
    tpl_src = open(os.path.join(ctx.spec_dir, "mh.c.in")).read()
    for k, v in tables.items():
        tpl_src = tpl_src.replace("//@BODY %s\n" % k, v + "\n")
    tpl = os.path.join(ctx.out, "mh.c.in")
    open(tpl, "w").write(tpl_src)
    jobs = [Job(n, tpl, bodies=BODIES, harness=n, unwind=50, vacuity=False, min_obligations=k, drop_checks=["--conversion-check"])
            for n, k in (("h_enum_roundtrip", 5), ("h_enum_invalid", 5), ("h_string_roundtrip", 3), ("h_dimensions", 5))]
    run_jobs(ctx, jobs)
    # part 2 (E2): axes conventions
    from engines.symvc.discharge import run_spec
    ctx.assume("the documented permutation (OrthotropicAxesConvention.hxx: with PIPE, the second and third material axes are exchanged in plane stress, plane strain and generalised plane strain; identity otherwise; PLATE: identity) is transcribed once in specs/C28/e2.cxx:perm; the reference objects are the 3D DEFAULT-convention stiffness and Hill tensors computed by the real code (their own meaning is C21's subject)",
               "AxisymmetricalGeneralisedPlaneStress/ALTERED stiffness is excluded here: it is the known finding of C21")
    run_spec(ctx, expect_min=400)
