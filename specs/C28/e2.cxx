// C28 (part 2, E2) — PIPE / PLATE orthotropic axes conventions: stress-free expansion, stiffness and Hill tensors of each modelling
// hypothesis are the documented axis permutation of the 3D (DEFAULT convention) objects.
#include "vsym/traits.hxx"
#include "TFEL/Math/stensor.hxx"
#include "TFEL/Math/st2tost2.hxx"
#include "TFEL/Material/ModellingHypothesis.hxx"
#include "TFEL/Material/OrthotropicAxesConvention.hxx"
#include "TFEL/Material/StiffnessTensor.hxx"
#include "TFEL/Material/Hill.hxx"
#include "vsym/driver.hxx"
using namespace tfel::math;
using namespace tfel::material;
using MH = ModellingHypothesis;
using OAC = OrthotropicAxesConvention;
constexpr auto UNA = StiffnessTensorAlterationCharacteristic::UNALTERED;
constexpr auto ALT = StiffnessTensorAlterationCharacteristic::ALTERED;

// documented permutation (OrthotropicAxesConvention.hxx): with PIPE, in plane stress / plane strain / generalised plane strain the
// second and third material axes are exchanged compared to the 3D case: reduced index -> 3D index (xx yy zz xy | xz yz);
// the in-plane shear (1,2) of the reduced frame is the (1,3) shear of the 3D frame. Everything else is the identity.
template <MH::Hypothesis H, OAC c> constexpr unsigned short perm(const unsigned short i) {
  constexpr bool plane = (H == MH::PLANESTRESS) || (H == MH::PLANESTRAIN) || (H == MH::GENERALISEDPLANESTRAIN);
  if constexpr (plane && c == OAC::PIPE) {
    constexpr unsigned short p[4] = {0, 2, 1, 4};
    return p[i];
  } else {
    return i;
  }
}
template <class E> st2tost2<3u, typename E::real> stiffness3D(E& e, typename E::real (&c)[9]) {
  using T = typename E::real;
  const char* n[9] = {"E1", "E2", "E3", "nu12", "nu23", "nu13", "G12", "G23", "G13"};
  for (int i = 0; i < 9; ++i) c[i] = e.var(n[i]);
  for (int i : {0, 1, 2, 6, 7, 8}) e.require(e.lt(T(0), c[i]));
  const T S11 = T(1) / c[0], S22 = T(1) / c[1], S33 = T(1) / c[2], S12 = -c[3] / c[0], S13 = -c[5] / c[0], S23 = -c[4] / c[1];
  e.require(e.lt(T(0), S11 * S22 - S12 * S12));
  e.require(e.lt(T(0), S11 * S22 * S33 + T(2) * S23 * S13 * S12 - S11 * S23 * S23 - S22 * S13 * S13 - S33 * S12 * S12));
  st2tost2<3u, T> C;
  computeOrthotropicStiffnessTensor<MH::TRIDIMENSIONAL, UNA, OAC::DEFAULT>(C, c[0], c[1], c[2], c[3], c[4], c[5], c[6], c[7], c[8]);
  return C;
}
template <MH::Hypothesis H, StiffnessTensorAlterationCharacteristic A, OAC c, class E> void c_stiffness(E& e) {
  using T = typename E::real;
  constexpr unsigned short N = ModellingHypothesisToSpaceDimension<H>::value;
  constexpr unsigned short n = StensorDimeToSize<N>::value;
  T m[9];
  const auto C3 = stiffness3D(e, m);
  st2tost2<N, T> C;
  computeOrthotropicStiffnessTensor<H, A, c>(C, m[0], m[1], m[2], m[3], m[4], m[5], m[6], m[7], m[8]);
  constexpr bool condense = (A == ALT) && (H == MH::PLANESTRESS);
  constexpr unsigned short z = 2;  // stress-free direction of plane stress, in the reduced frame
  for (unsigned short i = 0; i < n; ++i)
    for (unsigned short j = 0; j < n; ++j) {
      const auto pi = perm<H, c>(i), pj = perm<H, c>(j), pz = perm<H, c>(z);
      T ref = C3(pi, pj);
      if constexpr (condense) {
        if (i == z || j == z) ref = T(0);
        else ref = C3(pi, pj) - C3(pi, pz) * C3(pz, pj) / C3(pz, pz);
      }
      e.ensure("C(" + std::to_string(i) + "," + std::to_string(j) + ") = permuted " + (condense ? "condensed " : "") + "3D entry", e.eq(C(i, j), ref));
    }
}
template <MH::Hypothesis H, OAC c, class E> void c_hill(E& e) {
  using T = typename E::real;
  constexpr unsigned short N = ModellingHypothesisToSpaceDimension<H>::value;
  constexpr unsigned short n = StensorDimeToSize<N>::value;
  const T F = e.var("F"), G = e.var("G"), Hh = e.var("H"), L = e.var("L"), M = e.var("M"), Nn = e.var("N");
  const auto H3 = computeHillTensor<MH::TRIDIMENSIONAL, OAC::DEFAULT, T>(F, G, Hh, L, M, Nn);
  const auto Hr = computeHillTensor<H, c, T>(F, G, Hh, L, M, Nn);
  for (unsigned short i = 0; i < n; ++i)
    for (unsigned short j = 0; j < n; ++j)
      e.ensure("H(" + std::to_string(i) + "," + std::to_string(j) + ") = permuted 3D entry", e.eq(Hr(i, j), H3(perm<H, c>(i), perm<H, c>(j))));
  // same material, same response: for a stress state living in the reduced space, s:H:s computed with the reduced tensor equals the 3D value
  stensor<N, T> s;
  stensor<3u, T> s3(T(0));
  for (unsigned short i = 0; i < n; ++i) {
    s[i] = e.var("s" + std::to_string(i));
    s3[perm<H, c>(i)] = s[i];
  }
  e.ensure("Hill equivalent stress squared: reduced = 3D for the same stress state", e.eq(s | (Hr * s), s3 | (H3 * s3)));
}
template <MH::Hypothesis H, OAC c, class E> void c_expansion(E& e) {
  using T = typename E::real;
  constexpr unsigned short N = ModellingHypothesisToSpaceDimension<H>::value;
  stensor<N, T> s(T(0));
  const T a0 = e.var("a1"), a1 = e.var("a2"), a2 = e.var("a3");
  const T a3[3] = {a0, a1, a2};
  s[0] = a0; s[1] = a1; s[2] = a2;
  convertStressFreeExpansionStrain<H, c, T>(s);
  for (unsigned short i = 0; i < 3; ++i) e.ensure("expansion(" + std::to_string(i) + ") = 3D expansion along the permuted axis", e.eq(s[i], a3[perm<H, c>(i)]));
  for (unsigned short i = 3; i < StensorDimeToSize<N>::value; ++i) e.ensure("no shear expansion created (" + std::to_string(i) + ")", e.eq(s[i], T(0)));
}
#define ALLC(NAME, H, C, CN)                                                                            \
  VSYM_CONTRACT("stiffness/" NAME "/" CN "/UNALTERED", (c_stiffness<MH::H, UNA, OAC::C>))               \
  VSYM_CONTRACT("stiffness/" NAME "/" CN "/ALTERED", (c_stiffness<MH::H, ALT, OAC::C>))                 \
  VSYM_CONTRACT("hill/" NAME "/" CN, (c_hill<MH::H, OAC::C>))                                           \
  VSYM_CONTRACT("expansion/" NAME "/" CN, (c_expansion<MH::H, OAC::C>))
#define PIPEC(NAME, H) ALLC(NAME, H, PIPE, "PIPE")
PIPEC("AXISYMMETRICALGENERALISEDPLANESTRAIN", AXISYMMETRICALGENERALISEDPLANESTRAIN)
PIPEC("AXISYMMETRICAL", AXISYMMETRICAL)
PIPEC("PLANESTRESS", PLANESTRESS)
PIPEC("PLANESTRAIN", PLANESTRAIN)
PIPEC("GENERALISEDPLANESTRAIN", GENERALISEDPLANESTRAIN)
PIPEC("TRIDIMENSIONAL", TRIDIMENSIONAL)
// AXISYMMETRICALGENERALISEDPLANESTRESS / ALTERED is a known finding of C21 (independent of the convention): UNALTERED, Hill and expansion only
VSYM_CONTRACT("stiffness/AXISYMMETRICALGENERALISEDPLANESTRESS/PIPE/UNALTERED", (c_stiffness<MH::AXISYMMETRICALGENERALISEDPLANESTRESS, UNA, OAC::PIPE>))
VSYM_CONTRACT("hill/AXISYMMETRICALGENERALISEDPLANESTRESS/PIPE", (c_hill<MH::AXISYMMETRICALGENERALISEDPLANESTRESS, OAC::PIPE>))
VSYM_CONTRACT("expansion/AXISYMMETRICALGENERALISEDPLANESTRESS/PIPE", (c_expansion<MH::AXISYMMETRICALGENERALISEDPLANESTRESS, OAC::PIPE>))
// PLATE: 3D and the three plane hypotheses only (documented); Hill and expansion (the stiffness tensor has no PLATE variant)
#define PLATEC(NAME, H) VSYM_CONTRACT("hill/" NAME "/PLATE", (c_hill<MH::H, OAC::PLATE>)) VSYM_CONTRACT("expansion/" NAME "/PLATE", (c_expansion<MH::H, OAC::PLATE>))
PLATEC("PLANESTRESS", PLANESTRESS)
PLATEC("PLANESTRAIN", PLANESTRAIN)
PLATEC("GENERALISEDPLANESTRAIN", GENERALISEDPLANESTRAIN)
PLATEC("TRIDIMENSIONAL", TRIDIMENSIONAL)
int main(int argc, char** argv) { return vsym::driver_main(argc, argv); }
