"""C11 — linear interpolation (E2, table size enumerated). The cubic spline is not under contract."""
from engines.symvc.discharge import run_spec


def run(ctx):
    ctx.assume("linear interpolation only (computeLinearInterpolation / computeLinearInterpolationAndDerivative on std::array tables of 1..4 points, thorough 5 and 6): each table size is a separate instantiation, complete over all strictly increasing abscissae, values and query points; infeasible branches are pruned on the fly",
               "NOT covered: tables up to 50 points, and the whole CubicSpline class (natural spline system, evaluation, integral, mean value): not built")
    srcs = " ".join("%s/src/%s" % (ctx.repo, f) for f in ("Math/CubicSpline.cxx", "Math/MathException.cxx", "Exception/TFELException.cxx"))
    run_spec(ctx, flags=("-DVERIF_THOROUGH " if ctx.thorough else "") + srcs, expect_min=30, per_timeout=300 if ctx.thorough else 90)
