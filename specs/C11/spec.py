"""C11 — linear interpolation and cubic spline (E2, table size enumerated)."""
from engines.symvc.discharge import run_spec


def run(ctx):
    ctx.assume("linear interpolation on std::array tables of 1..4 points (thorough 5, 6) and CubicSpline<sym,sym> on 2 and 3 points (thorough 4): each table size is a separate instantiation, complete over all strictly increasing abscissae (spline: spacings in [1e-6, 1e6], away from the 100*numeric_limits::min() pivot guard), values, query points and integration bounds; infeasible branches are pruned on the fly",
               "NOT covered: larger tables (up to 50 points in the property statement)", "regularity of the spline at the nodes is stated with the exact symbolic derivatives of the returned value and Taylor's formula on each cubic piece (vsym differentiation rules trusted)")
    srcs = " ".join("%s/src/%s" % (ctx.repo, f) for f in ("Math/CubicSpline.cxx", "Math/MathException.cxx", "Exception/TFELException.cxx"))
    run_spec(ctx, flags=("-DVERIF_THOROUGH " if ctx.thorough else "") + srcs, expect_min=30, per_timeout=300 if ctx.thorough else 90)
