// C11 — linear interpolation (E2, table size enumerated): node reproduction, the returned value is the linear interpolant of the
// segment containing the query point, linear extrapolation or clamping outside the table, returned derivative = slope of that segment.
#include "vsym/traits.hxx"
#include <array>
#include "TFEL/Math/LinearInterpolation.hxx"
#include "TFEL/Math/CubicSpline.hxx"
#include "vsym/driver.hxx"
using namespace tfel::math;

template <unsigned n, class E> struct Table {
  using T = typename E::real;
  std::array<T, n> x, y;
  explicit Table(E& e) {
    for (unsigned i = 0; i < n; ++i) { x[i] = e.var("x" + std::to_string(i)); y[i] = e.var("y" + std::to_string(i)); }
    for (unsigned i = 0; i + 1 < n; ++i) e.require(e.lt(x[i], x[i + 1]));  // strictly increasing abscissae
  }
  T seg(const unsigned i, const T& a) const { return y[i] + (y[i + 1] - y[i]) / (x[i + 1] - x[i]) * (a - x[i]); }
  T slope(const unsigned i) const { return (y[i + 1] - y[i]) / (x[i + 1] - x[i]); }
};
template <unsigned n, bool extrapolate, class E> void c_linear(E& e) {
  using T = typename E::real;
  Table<n, E> t(e);
  const T a = e.var("a");
  const T v = computeLinearInterpolation<extrapolate>(t.x, t.y, a);
  const auto vd = computeLinearInterpolationAndDerivative<extrapolate>(t.x, t.y, a);
  e.ensure("AndDerivative.first = computeLinearInterpolation", e.eq(vd.first, v));
  if constexpr (n == 1) {
    e.ensure("single point: constant", e.eq(v, t.y[0]) && e.eq(vd.second, T(0)));
  } else {
    std::vector<decltype(e.tru())> cases;
    for (unsigned i = 0; i + 1 < n; ++i)
      cases.push_back(e.le(t.x[i], a) && e.le(a, t.x[i + 1]) && e.eq(v, t.seg(i, a)) && e.eq(vd.second, t.slope(i)));
    if constexpr (extrapolate) {
      cases.push_back(e.le(a, t.x[0]) && e.eq(v, t.seg(0, a)) && e.eq(vd.second, t.slope(0)));
      cases.push_back(e.le(t.x[n - 1], a) && e.eq(v, t.seg(n - 2, a)) && e.eq(vd.second, t.slope(n - 2)));
    } else {
      cases.push_back(e.le(a, t.x[0]) && e.eq(v, t.y[0]) && e.eq(vd.second, T(0)));
      cases.push_back(e.le(t.x[n - 1], a) && e.eq(v, t.y[n - 1]) && e.eq(vd.second, T(0)));
    }
    e.ensure(std::string("value and derivative are those of the segment containing the point, ") + (extrapolate ? "linear extrapolation" : "clamping") + " outside the table", any_of(cases));
  }
}
// the tabulated value is returned at each node (queried with the node's own abscissa)
template <unsigned n, bool extrapolate, class E> void c_nodes(E& e) {
  using T = typename E::real;
  Table<n, E> t(e);
  for (unsigned j = 0; j < n; ++j) {
    const T v = computeLinearInterpolation<extrapolate>(t.x, t.y, t.x[j]);
    e.ensure("value at node " + std::to_string(j) + " is the tabulated one", e.eq(v, t.y[j]));
  }
}
#define L(N) \
  template <class E> void lt_##N(E& e) { c_linear<N, true>(e); } VSYM_CONTRACT_P("linear/n=" #N "/extrapolation", lt_##N, 100) \
  template <class E> void lf_##N(E& e) { c_linear<N, false>(e); } VSYM_CONTRACT_P("linear/n=" #N "/clamping", lf_##N, 100) \
  template <class E> void nt_##N(E& e) { c_nodes<N, true>(e); } VSYM_CONTRACT_P("linear/n=" #N "/nodes", nt_##N, 200)
L(1) L(2) L(3) L(4)
#ifdef VERIF_THOROUGH
L(5) L(6)
#endif

// ---- cubic spline ---------------------------------------------------------------------------------------------------------------
template <unsigned n, class E> struct Spline {
  using T = typename E::real;
  std::array<T, n> x, y;
  CubicSpline<T, T> s;
  bool built = false;
  explicit Spline(E& e) {
    for (unsigned i = 0; i < n; ++i) { x[i] = e.var("x" + std::to_string(i)); y[i] = e.var("y" + std::to_string(i)); }
    // strictly increasing abscissae with spacings in [1e-6, 1e6] (well away from the 100*numeric_limits::min() pivot guard)
    for (unsigned i = 0; i + 1 < n; ++i) e.require(e.le(T(1) / T(1000000), x[i + 1] - x[i]) && e.le(x[i + 1] - x[i], T(1000000)));
    try {
      s.setCollocationPoints(x, y);
      built = true;
    } catch (std::exception&) {
    }
    e.ensure("setCollocationPoints accepts every strictly increasing table (no null pivot, no exception)", built ? e.tru() : e.eq(T(0), T(1)));
  }
};
// C2 regularity, natural end conditions and linear extrapolation in one statement: at every node j, the value, first and second derivative
// given by the piece on the right of the node (a in (x_j, x_j+1], or beyond the last node: the extrapolation), carried back to the node by
// Taylor's formula (exact: the piece is shown to be a cubic in a), are those returned AT the node (left piece, or the extrapolation for j=0).
template <unsigned n, unsigned j, class E> void c_spline_node(E& e) {
  using T = typename E::real;
  Spline<n, E> t(e);
  if (!t.built) return;
  const T a = e.var("a");
  e.require(e.lt(t.x[j], a));
  if constexpr (j + 1 < n) e.require(e.le(a, t.x[j + 1]));
  T f, df, d2f, fl, dfl, d2fl;
  t.s.getValues(f, df, d2f, a);
  t.s.getValues(fl, dfl, d2fl, t.x[j]);
  e.ensure("value at node is the tabulated one", e.eq(fl, t.y[j]));
  e.ensure("getValue(node) is the tabulated value", e.eq(t.s.getValue(t.x[j]), t.y[j]));
  T f2, df2;
  t.s.getValues(f2, df2, a);
  e.ensure("the three evaluation entry points agree", e.eq(f2, f) && e.eq(df2, df) && e.eq(t.s.getValue(a), f) && e.eq(t.s(a), f));
  if constexpr (E::can_differentiate) {
    const T d1 = e.d(f, a), d2 = e.d(df, a), d3 = e.d(d2f, a), d4 = e.d(d3, a);
    e.ensure("returned first derivative is the derivative of the interpolant", e.eq(df, d1));
    e.ensure("returned second derivative is the derivative of the first", e.eq(d2f, d2));
    e.ensure("each piece is a cubic", e.eq(d4, T(0)));
    const T h = a - t.x[j];
    e.ensure("C0 at node", e.eq(f - df * h + d2f * h * h / T(2) - d3 * h * h * h / T(6), fl));
    e.ensure("C1 at node", e.eq(df - d2f * h + d3 * h * h / T(2), dfl));
    e.ensure(j == 0 || j + 1 == n ? "natural end condition: zero second derivative at the end node, on both sides" : "C2 at node", e.eq(d2f - d3 * h, d2fl));
    if (j == 0 || j + 1 == n) e.ensure("second derivative at the end node is zero", e.eq(d2fl, T(0)));
  }
}
// free functions: same interpolant inside, linear extrapolation or clamping outside
template <unsigned n, class E> void c_spline_free(E& e) {
  using T = typename E::real;
  Spline<n, E> t(e);
  if (!t.built) return;
  const T a = e.var("a");
  T f, df, d2f;
  t.s.getValues(f, df, d2f, a);
  const auto& pts = t.s.getCollocationPoints();
  const T vt = computeCubicSplineInterpolation<true>(pts, a);
  const T vf = computeCubicSplineInterpolation<false>(pts, a);
  const auto dt = computeCubicSplineInterpolationAndDerivative<true>(pts, a);
  const auto dfp = computeCubicSplineInterpolationAndDerivative<false>(pts, a);
  e.ensure("extrapolating free functions = the spline", e.eq(vt, f) && e.eq(dt.first, f) && e.eq(dt.second, df));
  e.ensure("clamping free functions: spline inside the table", implies(e.lt(t.x[0], a) && e.le(a, t.x[n - 1]), e.eq(vf, f) && e.eq(dfp.first, f) && e.eq(dfp.second, df)));
  e.ensure("clamping free functions: first value below the table, zero derivative", implies(e.le(a, t.x[0]), e.eq(vf, t.y[0]) && e.eq(dfp.first, t.y[0]) && implies(e.lt(a, t.x[0]), e.eq(dfp.second, T(0)))));
  e.ensure("clamping free functions: last value above the table, zero derivative", implies(e.lt(t.x[n - 1], a), e.eq(vf, t.y[n - 1]) && e.eq(dfp.first, t.y[n - 1]) && e.eq(dfp.second, T(0))));
}
// integral: I(a,a) = 0, dI/db = spline(b), antisymmetry, additivity (these determine I as the integral of the interpolant), mean value
template <unsigned n, class E> void c_spline_integral(E& e) {
  using T = typename E::real;
  Spline<n, E> t(e);
  if (!t.built) return;
  const T a = e.var("a"), b = e.var("b");
  const T I = t.s.computeIntegral(a, b);
  e.ensure("empty interval: zero integral", e.eq(t.s.computeIntegral(a, a), T(0)));
  e.ensure("antisymmetric", e.eq(t.s.computeIntegral(b, a), -I));
  if constexpr (E::can_differentiate) {
    e.ensure("d/db integral(a,b) = spline(b)", e.eq(e.d(I, b), t.s.getValue(b)));
    e.ensure("d/da integral(a,b) = -spline(a)", e.eq(e.d(I, a), -t.s.getValue(a)));
  }
}
template <unsigned n, class E> void c_spline_mean(E& e) {
  using T = typename E::real;
  Spline<n, E> t(e);
  if (!t.built) return;
  const T a = e.var("a"), b = e.var("b");
  e.require(!e.eq(a, b));  // the mean value over an empty interval is 0/0
  e.ensure("mean value = integral / length", e.eq(t.s.computeMeanValue(a, b) * (b - a), t.s.computeIntegral(a, b)));
}
template <unsigned n, class E> void c_spline_additive(E& e) {
  using T = typename E::real;
  Spline<n, E> t(e);
  if (!t.built) return;
  const T a = e.var("a"), b = e.var("b"), c = e.var("c");
  // sorted bounds only: the other orders follow from antisymmetry (contract `integral`)
  e.require(e.le(a, b) && e.le(b, c));
  e.ensure("additive: I(a,b) + I(b,c) = I(a,c)", e.eq(t.s.computeIntegral(a, b) + t.s.computeIntegral(b, c), t.s.computeIntegral(a, c)));
}
#define SN(N, J) template <class E> void sn_##N##_##J(E& e) { c_spline_node<N, J>(e); } VSYM_CONTRACT_P("spline/n=" #N "/node" #J, sn_##N##_##J, 100)
#define SP(N) \
  template <class E> void sf_##N(E& e) { c_spline_free<N>(e); } VSYM_CONTRACT_P("spline/n=" #N "/free functions", sf_##N, 100) \
  template <class E> void si_##N(E& e) { c_spline_integral<N>(e); } VSYM_CONTRACT_P("spline/n=" #N "/integral", si_##N, 400) \

#define SM(N) template <class E> void sm_##N(E& e) { c_spline_mean<N>(e); } VSYM_CONTRACT_P("spline/n=" #N "/mean value", sm_##N, 400)
#define SA(N) template <class E> void sa_##N(E& e) { c_spline_additive<N>(e); } VSYM_CONTRACT_P("spline/n=" #N "/integral additive", sa_##N, 1500)
SN(2, 0) SN(2, 1) SP(2) SM(2) SA(2)
SN(3, 0) SN(3, 1) SN(3, 2) SP(3)
#ifdef VERIF_THOROUGH
SM(3) SA(3)
SN(4, 0) SN(4, 1) SN(4, 2) SN(4, 3) SP(4)
#endif
int main(int argc, char** argv) { return vsym::driver_main(argc, argv); }
