#include "prelude.h"
#include <float.h>
typedef double real;
#define std_abs(x) __CPROVER_fabs(x)
#define std_isfinite(x) (__CPROVER_isfinited(x) != 0)
#define FIN(x) (__CPROVER_isfinited(x) != 0)
#ifndef NMAX
#define NMAX (1u << 20)
#endif
/* state of the Comparison object (tfel-check) */
double prec, precision2; bool g_success; bool interpolationIsConform; bool legends_empty;
size_t g_w; /* ghost: a row that made the comparison fail (set next to `s = false`) */
/* MTest test objects */
int g_threw, g_failed; double in_v, in_fv, test_eps;
#define get(s) in_v
