"""C51 — MTest and tfel-check verdict kernels (E1, loop contracts, all doubles incl. NaN/inf)."""
from engines.cbmcc.run import Job, run_jobs

T = "tfel-check/src/"


def cmp_rules(idx, nmsg, extra=()):
    return [
        {"name": "using namespace std", "re": r"using namespace std;", "sub": "", "min": 1},
        {"name": "drop log text (msgLog += / .append)", "re": r"this->msgLog(?: \+=|\.append\().*?;", "sub": "", "min": nmsg},
        {"name": "drop message-only percentage", "re": r"(?<!float )errorLinesPercent = \([^;]*;", "sub": "", "min": 1, "max": 1},
        {"name": "column c1 -> A", "re": r"this->c1->getValues\(\)", "sub": "A_", "min": 1},
        {"name": "column c2 -> B", "re": r"this->c2->getValues\(\)", "sub": "B_", "min": 1},
        {"name": "row count", "re": r"[AB]_\.size\(\)", "sub": "n", "min": 1},
        {"name": "row access [i] / .at(i)", "re": r"([AB])_(?:\[([^\]]+)\]|\.at\(([^)]+)\))", "sub": lambda m: "%s[%s]" % (m.group(1), m.group(2) or m.group(3)), "min": 2},
        {"name": "row access .front()", "re": r"([AB])_\.front\(\)", "sub": r"\1[0]"},
        {"name": "row access .back()", "re": r"([AB])_\.back\(\)", "sub": r"\1[n - 1]"},
        {"name": "no unmapped column access may remain", "forbid": r"[AB]_\b"},
        {"name": "legend line offset", "re": r"this->c2->getData\(\)->getLegends\(\)\.empty\(\)", "sub": "legends_empty", "min": 1},
        {"name": "members", "re": r"this->(prec|precision2|interpolationIsConform)\b", "sub": r"\1", "min": 1},
        {"name": "success flag", "re": r"this->success\b", "sub": "g_success", "min": 1, "max": 1},
        {"name": "size_type", "re": r"vector<double>::size_type", "sub": "size_t", "min": 1},
        {"name": "numeric_limits", "re": r"(?:std::)?numeric_limits<double>::min\(\)", "sub": "DBL_MIN"},
        {"name": "numeric_limits-max", "re": r"std::numeric_limits<double>::max\(\)", "sub": "DBL_MAX"},
        {"name": "unqualified min/abs (using namespace std)", "re": r"(?<![\w:])min\(", "sub": "std_min("},
        {"name": "unqualified abs", "re": r"(?<![\w:])abs\(", "sub": "std_abs("},
        {"name": "line number narrowing made explicit", "re": r"(error\w*LineNumber) = (\w+) \+ lineOffset;", "sub": r"\1 = (unsigned int)(\2 + lineOffset);", "min": 1},
        {"name": "ghost witness next to s = false", "re": r"\bs = false;", "sub": "s = false; g_w = %s;" % idx, "min": 1, "max": 1},
        {"name": "loop contract anchor (LOOP 1)", "re": r"(for \(size_t %s\b[^{]*?\))\s*\{" % idx, "sub": r"\1 LOOP1 {", "min": 1, "max": 1},
    ] + list(extra)


M_RULES = [
    {"name": "drop throw_if lambda definition", "re": r"auto throw_if = \[\]\(const bool c, const std::string& m\) \{.*?\};", "sub": "", "min": 1, "max": 1},
    {"name": "throw_if(c, msg) -> raise ghost flag, leave", "re": r"throw_if\(([^,;]*),[^;]*\);", "sub": r"if (\1) { g_threw = 1; return; }", "min": 1},
    {"name": "drop message stream", "re": r"std::ostringstream msg;", "sub": "", "min": 1},
    {"name": "drop message text", "re": r"msg <<[^;]*;", "sub": "", "min": 1},
    {"name": "results.append({false,..}) -> ghost failure", "re": r"this->results\.append\(\{false, msg\.str\(\)\}\);", "sub": "g_failed = 1;", "min": 1},
    {"name": "members", "re": r"this->eps\b", "sub": "test_eps", "min": 1},
]
BODIES_C = [
    dict(name="AbsoluteComparison_compare", file=T + "AbsoluteComparison.cxx", pattern=r"void AbsoluteComparison::compare\(\)", rules=cmp_rules("idx", 8)),
    dict(name="RelativeComparison_compare", file=T + "RelativeComparison.cxx", pattern=r"void RelativeComparison::compare\(\)", rules=cmp_rules("index", 8)),
    dict(name="RelativeAndAbsoluteComparison_compare", file=T + "RelativeAndAbsoluteComparison.cxx", pattern=r"void RelativeAndAbsoluteComparison::compare\(\)", rules=cmp_rules("index", 8)),
    dict(name="MixedComparison_compare", file=T + "MixedComparison.cxx", pattern=r"void MixedComparison::compare\(\)",
         rules=cmp_rules("index", 8, extra=[{"name": "const auto va/vb", "re": r"const __typeof__\((?:A|B)\[[^\]]*\]\) (v[ab]) =", "sub": r"const double \1 ="}])),
]
BODIES_M = [
    dict(name="AnalyticalTest_check", file="mtest/src/AnalyticalTest.cxx", pattern=r"void AnalyticalTest::check\(const CurrentState& s,",
         rules=[{"name": "drop formula-variable set-up loop", "drop_block": r"for \(const auto& vn : this->f\.getVariablesNames\(\)\) \{", "min": 1},
                {"name": "formula value", "re": r"this->f\.getValue\(\)", "sub": "in_fv", "min": 1}] + M_RULES),
    dict(name="ReferenceFileComparisonTest_check", file="mtest/src/ReferenceFileComparisonTest.cxx", pattern=r"void ReferenceFileComparisonTest::check\(const CurrentState& s,",
         rules=[{"name": "reference column size", "re": r"this->values\.size\(\)", "sub": "n", "min": 1},
                {"name": "reference value", "re": r"this->values\[p\]", "sub": "values[p]", "min": 1}] + M_RULES),
]
FP = ["--cvc5", "--sat-solver cadical", None]  # floating-point obligations: SMT (FP theory) first, SAT back ends as fall-back


def row_rules(idx):
    return [
        {"name": "row value a", "re": r"this->c1->getValues\(\)(?:\[%s\]|\.at\(%s\))" % (idx, idx), "sub": "a", "min": 1},
        {"name": "row value b", "re": r"this->c2->getValues\(\)(?:\[%s\]|\.at\(%s\))" % (idx, idx), "sub": "b", "min": 1},
        {"name": "members", "re": r"this->(prec|precision2)\b", "sub": r"\1", "min": 1},
        {"name": "unqualified min (using namespace std)", "re": r"(?<![\w:])min\(", "sub": "std_min("},
        {"name": "unqualified abs", "re": r"(?<![\w:])abs\(", "sub": "std_abs("},
        {"name": "line number narrowing made explicit", "re": r"(error\w*LineNumber) = (\w+) \+ lineOffset;", "sub": r"\1 = (unsigned int)(\2 + lineOffset);", "min": 1},
        {"name": "ghost witness next to s = false", "re": r"\bs = false;", "sub": "s = false; g_w = %s;" % idx, "min": 1, "max": 1},
        {"name": "const auto va/vb", "re": r"const auto (v[ab]) =", "sub": r"const double \1 ="},
    ]


EPS_DECL = dict(file=T + "RelativeComparison.cxx", pattern=r"constexpr const double eps = 100\. \* numeric_limits<double>::min\(\);", what="match",
                rules=[{"name": "numeric_limits", "re": r"numeric_limits<double>::min\(\)", "sub": "DBL_MIN", "min": 1}, {"name": "file-scope constant", "re": r"constexpr const double", "sub": "static const double", "min": 1}])
BODIES_R = [
    dict(EPS_DECL, name="eps_decl"),
    dict(name="AbsoluteComparison_row", file=T + "AbsoluteComparison.cxx", pattern=r"void AbsoluteComparison::compare\(\).*?for (?=\(vector<double>::size_type idx\b)", rules=row_rules("idx")),
    dict(name="RelativeComparison_row", file=T + "RelativeComparison.cxx", pattern=r"void RelativeComparison::compare\(\).*?for (?=\(vector<double>::size_type index\b)", rules=row_rules("index")),
    dict(name="RelativeAndAbsoluteComparison_row", file=T + "RelativeAndAbsoluteComparison.cxx", pattern=r"void RelativeAndAbsoluteComparison::compare\(\).*?for (?=\(vector<double>::size_type index\b)", rules=row_rules("index")),
    dict(name="MixedComparison_row", file=T + "MixedComparison.cxx", pattern=r"void MixedComparison::compare\(\).*?for (?=\(vector<double>::size_type index\b)", rules=row_rules("index")),
]
LBL = ["success-implies-every-row-finite-and-within-tolerance", "failure-only-if-some-row-is-out-of-tolerance"]
# one SMT query per job (--stop-on-fail): on a broken tree CBMC otherwise re-queries the solver once per failing property, and each
# floating-point counterexample search is slow; the vacuity probe runs as a separate single-property query
JOBS = [Job(b["name"], "comparisons.c.in", enforce=b["name"], bodies=BODIES_C, loop_contracts=True, min_obligations=5, expect_labels=LBL, backend=FP, needs=[b["name"]], stop_on_fail=True, timeout=400) for b in BODIES_C]
JOBS += [Job(b["name"], "rows.c.in", enforce=b["name"], bodies=BODIES_R, min_obligations=2, backend=FP, needs=["eps_decl", b["name"]],
             expect_labels=["row-accepted-iff-finite-and-within-tolerance", "failing-row-recorded"]) for b in BODIES_R[1:]]
JOBS += [Job(b["name"], "mtest.c.in", enforce=b["name"], bodies=BODIES_M, min_obligations=2, backend=FP, needs=[b["name"]],
             expect_labels=["pass-implies-finite-and-within-eps", "within-eps-implies-pass"]) for b in BODIES_M]


AT = [{"name": "abscissas.at(k) -> abscissas[k]", "re": r"\b(abscissas|ordinates)\.at\(([^)]+)\)", "sub": r"\1[\2]", "min": 4},
      {"name": "no vector access may remain", "forbid": r"\.at\("}]
BODIES_A = [
    dict(name="area_row", file=T + "AreaComparison.cxx", pattern=r"static double trapezoidalIntegration\(.*?for (?=\(std::vector<double>::size_type i = 0;)", rules=AT),
    dict(name="area_decide", file=T + "AreaComparison.cxx", what="match",
         pattern=r"areaValue /= maxValueA;.*?if \(areaValue[^{;]*\{\s*s = false;\s*\}",
         rules=[{"name": "members", "re": r"this->prec\b", "sub": "prec", "min": 1, "max": 1}]),
    dict(name="area_verdict", file=T + "AreaComparison.cxx", what="match", generic=False,
         pattern=r"if \(!s\) \{\s*this->msgLog \+= \" failed.*?this->success = false;\s*\}",
         rules=[{"name": "drop log text", "re": r"this->msgLog \+=.*?;", "sub": "", "min": 3},
                {"name": "success flag", "re": r"this->success\b", "sub": "g_success", "min": 1, "max": 1}]),
]
JOBS += [Job("area_row", "area.c.in", enforce="area_row", bodies=BODIES_A, min_obligations=2, backend=FP, needs=["area_row"],
             expect_labels=["identical-curves-keep-a-zero-area", "row-adds-the-trapezoid"]),
         Job("area_decide", "area.c.in", enforce="area_decide", bodies=BODIES_A, min_obligations=2, backend=FP, needs=["area_decide", "area_verdict"],
             expect_labels=["fails-when-the-normalised-area-exceeds-the-tolerance", "zero-area-is-accepted"])]


def run(ctx):
    ctx.assume("tolerances are finite and non-negative (requires); columns have at most 2^20 rows (object-size bound of the verifier, not of the argument: the loop contract is independent of n)",
               "the documented tolerance is evaluated with the same double expression as the code, so obligations isolate the decision (comparison direction, NaN/inf handling), not rounding",
               "log/message statements are deleted by must-fire rules; Comparison::success starts true (Comparison constructors)",
               "AreaComparison: only the trapezoid row and the normalise-and-decide kernel are under contract (area.c.in); its interpolation/insertion loops, the whole trapezoid loop and the maximum search are not verified",
               "universal statements over rows are proved through a ghost row index k (for `success`) and a ghost failing-row witness g_w set next to `s = false` (for `failure`)")
    run_jobs(ctx, JOBS, replay_fn=replay)


UT = ["src/Utilities/%s.cxx" % f for f in ("TextData", "CxxTokenizer", "CxxTokenizerOptions", "CxxKeywords", "Token", "StringAlgorithms")]
EXC = ["src/Exception/ContractViolation.cxx", "src/Exception/TFELException.cxx"]


def replay(ctx, job, ob):
    """Native replay on the real sources (compiled from the working tree): the failing row of the counterexample
    as a one-row column (tfel-check), or the value/reference pair (mtest)."""
    import glob
    import os
    from engines import replay as R
    ins = ob.inputs or {}
    exc = [os.path.relpath(f, ctx.repo) for f in glob.glob(os.path.join(ctx.repo, "src/Exception/*.cxx"))]
    hx = lambda k: R.bits_hex(ins[k]["binary"]) if k in ins and ins[k].get("binary") else None  # noqa
    if job.name.endswith("_row"):
        # one-row columns holding the failing row
        args = [job.name.replace("_row", "_compare"), hx("in_prec") or "0", hx("in_precision2") or "0", 1, hx("in_a") or "0", hx("in_b") or "0"]
        src = ["tfel-check/src/%s.cxx" % f for f in ("AbsoluteComparison", "RelativeComparison", "RelativeAndAbsoluteComparison", "MixedComparison", "Comparison")]
        ok, out = R.native(ctx, "C51_tfelcheck.cxx", args, extra_flags="-w -I%s/tfel-check/include" % ctx.repo, extra_src=src + UT + exc)
    elif job.name.endswith("_compare"):
        dyn = R.dyn_values(ins)
        try:
            k = int(ins.get("in_k", {}).get("data", "0").rstrip("ul"))
        except ValueError:
            k = 0
        if len(dyn) < 2 or not dyn[0] or not dyn[1]:
            return None
        n = min(len(dyn[0]), len(dyn[1]), 64)
        if job.name.endswith("_row"):
            return None
        args = [job.name, hx("in_prec") or "0", hx("in_precision2") or "0", n] + [R.bits_hex(x) for x in dyn[0][:n]] + [R.bits_hex(x) for x in dyn[1][:n]]
        src = ["tfel-check/src/%s.cxx" % f for f in ("AbsoluteComparison", "RelativeComparison", "RelativeAndAbsoluteComparison", "MixedComparison", "Comparison")]
        ok, out = R.native(ctx, "C51_tfelcheck.cxx", args, extra_flags="-w -I%s/tfel-check/include" % ctx.repo, extra_src=src + UT + exc)
    elif job.name == "ReferenceFileComparisonTest_check":
        dyn = R.dyn_values(ins)
        try:
            p = int(ins.get("in_p", {}).get("data", "0").rstrip("ul"))
        except ValueError:
            p = 0
        if not dyn or not dyn[0]:
            return None
        ref = dyn[0][p] if p < len(dyn[0]) else dyn[0][0]
        args = [hx("in_eps") or "0", hx("in_vv") or "0", R.bits_hex(ref)]
        ok, out = R.native(ctx, "C51_mtest.cxx", args, extra_flags="-w -I%s/mtest/include -I%s/mfront/include" % (ctx.repo, ctx.repo),
                           extra_src=["mtest/src/ReferenceFileComparisonTest.cxx", "src/Tests/TestResult.cxx"] + UT + exc)
    else:
        return None
    ob.detail += " | native replay: " + out.strip().replace("\n", " ; ")[-300:]
    return ok
