"""C39 / C40 — mfront::gb::integrate: calling convention (C39) and frame on failure (C40). E1, loop-free.
The same jobs serve both properties; each reports the ensures clauses carrying its prefix (plus the generated safety checks)."""
import os

from engines.cbmcc.run import Job, run_jobs
from engines.common import FAILED

F = "mfront/include/MFront/GenericBehaviour/Integrate.hxx"
WRAP = {"name": "Behaviour member calls -> throwing stubs wrapped in the exception model (CALLX)", "wrap_calls": r"\bb\.\w+\(", "fmt": "CALLX(%s)",
        "rename": lambda s: s.replace("b.", "b_", 1), "min": 1}
COMMON_TAIL = [
    {"name": "exportTangentOperator(d.K, b.getTangentOperator())", "re": r"exportTangentOperator\(d\.K, b\.getTangentOperator\(\)\);", "sub": "CALLX(b_exportTangentOperator());", "min": 1},
    WRAP,
    {"name": "no unmapped C++ may remain", "forbid": r"\bb\.|tfel::|std::"},
]
INTEGRATE_RULES = [
    {"name": "drop type aliases", "re": r"using \w+ =[^;]*;", "sub": "", "min": 6},
    {"name": "Behaviour b(d)", "re": r"Behaviour b\(d\);", "sub": "Behaviour_ctor();", "min": 1, "max": 1},
    {"name": "rdt view (reference to *d.rdt)", "re": r"auto&& rdt = tfel::math::map<behaviour_real_type>\(d\.rdt\);", "sub": "real* const p_rdt = d.rdt;", "min": 1, "max": 1},
    {"name": "uses of the rdt reference", "re": r"(?<![.>\w])rdt\b(?!\w)", "sub": "(*p_rdt)", "min": 5},
    {"name": "smt lambda -> extracted function", "re": r"const auto smt = \[&Ke\] \{.*?\}\(\);", "sub": "const int smt = smt_lambda(Ke);", "min": 1, "max": 1},
    {"name": "typed locals", "re": r"const auto bs =", "sub": "const bool bs =", "min": 1},
    {"name": "typed locals Ke", "re": r"const auto Ke =", "sub": "const real Ke =", "min": 1},
    {"name": "typed locals tsf", "re": r"\bauto tsf =", "sub": "pair_bool_real tsf =", "min": 1},
    {"name": "typed locals atsf", "re": r"const auto atsf =", "sub": "const pair_bool_real atsf =", "min": 1},
    {"name": "typed locals r", "re": r"const auto r =", "sub": "const int r =", "min": 1},
    {"name": "density argument: pointer identity decides s0 / s1", "re": r"massdensity\(\*\(d\.(s[01])\.mass_density\)\)", "sub": r"d.\1.mass_density", "min": 2, "max": 2},
    {"name": "speed of sound output", "re": r"tfel::math::map<speed>\(d\.speed_of_sound\) =", "sub": "*(d.speed_of_sound) =", "min": 1},
    {"name": "speed local", "re": r"auto v = speed\{\};", "sub": "real v = 0;"},
    {"name": "energy computers: compute (may throw)", "re": r"const auto (ie|de) = (IEnergyComputer|DEnergyComputer)::compute\(d, b\);", "sub": r"const int \1 = CALLX(\2_compute());"},
    {"name": "energy computers: store (writes s1)", "re": r"(IEnergyComputer|DEnergyComputer)::template store<Behaviour>\(d, (ie|de)\);", "sub": r"\1_store(\2);"},
    {"name": "energy computers: exe (compute then store)", "re": r"(IEnergyComputer|DEnergyComputer)::exe\(d, b\);", "sub": r"\1_store(CALLX(\1_compute()));"},
    {"name": "energy computers are used", "re": r"(?=[ID]EnergyComputer_(?:store|compute))", "sub": "", "min": 2},
    {"name": "prediction operator call", "re": r"return computePredictionOperator\(b, d, f\);", "sub": "return CALLX(computePredictionOperator(p_d, f));", "min": 1, "max": 1},
    {"name": "exportStateData(d.s1)", "re": r"b\.exportStateData\(d\.s1\);", "sub": "CALLX(b_exportStateData());", "min": 1},
    {"name": "policy setter (outside try)", "re": r"b\.setOutOfBoundsPolicy\(p\);", "sub": "b_setOutOfBoundsPolicy(p);", "min": 1, "max": 1},
    {"name": "error reporting", "re": r"reportError\(d,", "sub": "reportError(p_d,", "min": 1},
    {"name": "exception reporting", "re": r"reportFailureByException\(d\)", "sub": "reportFailureByException(p_d)", "min": 1},
    {"name": "try", "re": r"\btry \{", "sub": "{ /* try */", "min": 1, "max": 1},
    {"name": "catch(...)", "re": r"\} catch \(\.\.\.\) \{", "sub": "} goto L_after_catch; L_catch: {", "min": 1, "max": 1},
    {"name": "label after handler", "after_block": r"L_catch: \{", "insert": " L_after_catch: ;", "min": 1},
    {"name": "braced scalar literal", "re": r"behaviour_real_type\{0\.99\}", "sub": "((behaviour_real_type)0.99)", "min": 1},
] + COMMON_TAIL
PRED_RULES = [
    {"name": "smt lambda -> extracted function", "re": r"const auto smt = \[&d\] \{.*?\}\(\);", "sub": "const int smt = pred_smt_lambda(p_d);", "min": 1, "max": 1},
] + COMMON_TAIL
BODIES = [
    dict(name="pred_smt_lambda", file=F, pattern=r"int computePredictionOperator\(Behaviour& b,.*?const auto smt = \[&d\]"),
    dict(name="computePredictionOperator", file=F, pattern=r"int computePredictionOperator\(Behaviour& b,", rules=PRED_RULES),
    dict(name="smt_lambda", file=F, pattern=r"int integrate\(mfront_gb_BehaviourData& d,.*?const auto smt = \[&Ke\]"),
    dict(name="integrate", file=F, pattern=r"int integrate\(mfront_gb_BehaviourData& d,", rules=INTEGRATE_RULES),
]


def jobs(ctx):
    js = []
    for hp in (0, 1):
        for hc in (0, 1):
            for he in (0, 1):
                js.append(Job("integrate_P%d_C%d_E%d" % (hp, hc, he), os.path.join(ctx.verif, "specs/C39/integrate.c.in"), enforce="integrate", bodies=BODIES,
                              defines=["MTraits_hasPredictionOperator=%d" % hp, "MTraits_hasConsistentTangentOperator=%d" % hc,
                                       "MTraits_hasComputeInternalEnergy=%d" % he, "MTraits_hasComputeDissipatedEnergy=%d" % he],
                              includes=[ctx.repo + "/mfront/include"], min_obligations=20))
    return js


def run_filtered(ctx, prefix):
    ctx.assume("every user-code member of the generated Behaviour class (initialize, checkBounds, computePredictionOperator, compute*TimeStepScalingFactor, integrate, "
               "computeInternalEnergy, computeDissipatedEnergy, computeSpeedOfSound, getTangentOperator/exportTangentOperator) may return any value and may throw: assumed contracts, written as nondeterministic stubs over ghost state",
               "exportStateData, setOutOfBoundsPolicy, getMinimalTimeStepScalingFactor and the Behaviour constructor do not throw (generated code copies arrays)",
               "the output state d.s1 is abstracted by a ghost version counter bumped by exportStateData and the energy computers",
               "MechanicalBehaviourTraits flags are enumerated: 8 variants of the extracted text (if constexpr -> if on macro constants)",
               "exception types and messages are dropped; try/catch is rendered with goto and a ghost in-flight flag (DESIGN 2.1)")
    run_jobs(ctx, jobs(ctx), replay_fn=replay)
    keep = []
    for o in ctx.obligations:
        lab = o.name.split("/")[-1]
        if lab.startswith("C39:") or lab.startswith("C40:"):
            if lab.startswith(prefix + ":"):
                keep.append(o)
        else:
            keep.append(o)
    ctx.obligations = keep


def run(ctx):
    run_filtered(ctx, "C39")


def replay(ctx, job, ob):
    """Replay on the real template mfront::gb::integrate<Mock> (replay/C39.cxx): the stub outcomes of the counterexample
    (return values, which member threw) become the script of the mock Behaviour."""
    from engines import replay as R
    ins = ob.inputs or {}
    if "_P1_C1_E1" not in job.name:
        return None  # the mock has all traits on
    def g(k, d="0"):
        return (ins.get(k, {}).get("data") or d).rstrip("ul")
    def dbl(k, d=1.0):
        b = ins.get(k, {}).get("binary")
        if not b:
            return d
        import struct
        return struct.unpack(">d", int(b, 2).to_bytes(8, "big"))[0]
    dyn = R.dyn_values(ins)
    k0 = None
    for obj in dyn:  # K is the 3-double object
        if len(obj) == 3:
            import struct
            k0 = struct.unpack(">d", int(obj[0], 2).to_bytes(8, "big"))[0]
    if k0 is None:
        return None
    site = int(g("g_throw_site"))
    t = lambda s, v: "t" if site == s else v  # noqa
    b01 = lambda k: "1" if g(k, "1") in ("1", "TRUE") else "0"  # noqa
    integ = {"0": "0", "1": "1", "2": "2"}.get(g("g_int_ret"), "0")
    lab = ob.name.split("/")[-1]
    if lab.startswith("C40:"):
        expect = "frame"
    elif "prediction" in lab and "selects" in lab:
        expect = "pred_smt=%d" % {"elastic": 0, "secant": 1, "tangent": 2}[lab.split("selects-")[1].split("-")[0]]
    elif "selects" in lab or "integrates-without" in lab:
        expect = "int_smt=%d" % (4 if "without" in lab else {"elastic": 0, "secant": 1, "tangent": 2, "consistent": 3}[lab.split("selects-")[1].split("-")[0]])
    else:
        return None
    args = [repr(k0), g("in_p", "1"), t(1, b01("g_init_ret")), t(2, "n"), t(3, b01("g_pred_ret")), t(4, b01("g_apriori_first")), repr(dbl("g_apriori_second")),
            t(5, integ), t(6, b01("g_apost_first")), repr(dbl("g_apost_second")), t(9, "n"), t(10, "n"), t(8, "n"), expect]
    ok, out = R.native(ctx, "C39.cxx", args, extra_flags="-w -I%s/mfront/include" % ctx.repo, extra_src=["src/Exception/ContractViolation.cxx", "src/Exception/TFELException.cxx"])
    ob.detail += " | native replay (mock Behaviour, args %s): %s" % (" ".join(map(str, args)), out.strip().replace("\n", " ; ")[-250:])
    return ok
