// C07 — dense linear solvers (E2, exact arithmetic): a returned solution solves the system; a null pivot/determinant is reported.
#include "vsym/traits.hxx"
#include "TFEL/Math/tvector.hxx"
#include "TFEL/Math/tmatrix.hxx"
#include "TFEL/Math/TinyMatrixSolve.hxx"
#include "TFEL/Math/TinyMatrixInvert.hxx"
#include "TFEL/Math/vector.hxx"
#include "TFEL/Math/matrix.hxx"
#include "TFEL/Math/LUSolve.hxx"
#include "vsym/driver.hxx"
using namespace tfel::math;

template <unsigned short N, class E> tmatrix<N, N, typename E::real> sym_matrix(E& e, const char* p = "a") {
  tmatrix<N, N, typename E::real> m;
  for (unsigned short i = 0; i != N; ++i)
    for (unsigned short j = 0; j != N; ++j) m(i, j) = e.var(std::string(p) + std::to_string(i) + std::to_string(j));
  return m;
}
template <unsigned short N, class E> tvector<N, typename E::real> sym_vector(E& e, const char* p = "b") {
  tvector<N, typename E::real> v;
  for (unsigned short i = 0; i != N; ++i) v(i) = e.var(std::string(p) + std::to_string(i));
  return v;
}
template <unsigned short N, class T> T det_of(const tmatrix<N, N, T>& a) {
  if constexpr (N == 1) return a(0, 0);
  else if constexpr (N == 2) return a(0, 0) * a(1, 1) - a(0, 1) * a(1, 0);
  else {
    // Laplace expansion along the first row
    T d = T(0);
    for (unsigned short c = 0; c != N; ++c) {
      tmatrix<N - 1, N - 1, T> s;
      for (unsigned short i = 1; i != N; ++i) {
        unsigned short cc = 0;
        for (unsigned short j = 0; j != N; ++j) {
          if (j == c) continue;
          s(i - 1, cc++) = a(i, j);
        }
      }
      const T t = a(0, c) * det_of<N - 1, T>(s);
      d = (c % 2 == 0) ? d + t : d - t;
    }
    return d;
  }
}
template <class E> auto falsum(E& e) { using T = typename E::real; return e.eq(T(0), T(1)); }

// TinyMatrixSolve<N,T,false>::exe, vector right-hand side (closed forms for N <= 3, LU for N >= 4)
template <unsigned short N, bool use_exceptions, class E> void c_solve_vector(E& e) {
  using T = typename E::real;
  const auto a = sym_matrix<N>(e);
  const auto b = sym_vector<N>(e);
  const T eps = e.var("eps");
  e.require(e.lt(T(0), eps));
  auto m = a;
  auto x = b;
  bool ok = false, raised = false;
  try {
    ok = TinyMatrixSolve<N, T, use_exceptions>::exe(m, x, eps);
  } catch (LUException&) {
    raised = true;
  }
  if (ok) {
    for (unsigned short i = 0; i != N; ++i) {
      T s = T(0);
      for (unsigned short j = 0; j != N; ++j) s = s + a(i, j) * x(j);
      e.ensure("returned true: (A x)_" + std::to_string(i) + " = b_" + std::to_string(i), e.eq(s, b(i)));
    }
    e.ensure("returned true: det(A) != 0", !e.eq(det_of<N, T>(a), T(0)));
  } else {
    e.ensure("failure is reported by false or by an LU exception, never both", (raised && use_exceptions) || !raised ? e.tru() : falsum(e));
  }
  if constexpr (N <= 3) {
    // closed forms: the decision is the documented one, |det| < eps
    const T d = det_of<N, T>(a);
    e.ensure("closed form: success exactly when |det| >= eps", ok ? (e.le(eps, d) || e.le(d, -eps)) : (e.lt(-eps, d) && e.lt(d, eps)));
  }
}
// matrix right-hand side
template <unsigned short N, unsigned short M, class E> void c_solve_matrix(E& e) {
  using T = typename E::real;
  const auto a = sym_matrix<N>(e);
  tmatrix<N, M, T> b;
  for (unsigned short i = 0; i != N; ++i)
    for (unsigned short j = 0; j != M; ++j) b(i, j) = e.var("b" + std::to_string(i) + std::to_string(j));
  const T eps = e.var("eps");
  e.require(e.lt(T(0), eps));
  auto m = a;
  auto x = b;
  const bool ok = TinyMatrixSolve<N, T, false>::exe(m, x, eps);
  if (ok) {
    for (unsigned short i = 0; i != N; ++i)
      for (unsigned short k = 0; k != M; ++k) {
        T s = T(0);
        for (unsigned short j = 0; j != N; ++j) s = s + a(i, j) * x(j, k);
        e.ensure("returned true: (A X)_" + std::to_string(i) + std::to_string(k) + " = B", e.eq(s, b(i, k)));
      }
  } else {
    e.ensure("returned false: right-hand side reported, nothing claimed", e.tru());
  }
}
// the generic LU path at small N: TinyMatrixSolveBase::decomp + back_substitute (LUDecomp + TinyPermutation)
template <unsigned short N, class E> void c_lu(E& e) {
  using T = typename E::real;
  const auto a = sym_matrix<N>(e);
  const auto b = sym_vector<N>(e);
  const T eps = e.var("eps");
  e.require(e.lt(T(0), eps));
  auto m = a;
  auto x = b;
  TinyPermutation<N> p;
  using S = TinyMatrixSolveBase<N, T, false, false>;
  const bool ok_d = S::decomp(m, p, eps);
  if (!ok_d) {
    // a refusal is justified: at the failing column i (all earlier pivots were accepted) every remaining candidate is below eps, i.e.
    // the matrix is singular to the requested precision. m and p are the state LUDecomp left behind when it returned false.
    std::vector<decltype(e.tru())> cases;
    for (unsigned short i = 0; i != N; ++i) {
      auto c = e.lt(tfel::math::abs(m(p(i), i)), eps);
      for (unsigned short k = 0; k != i; ++k) c = c && e.le(eps, tfel::math::abs(m(p(k), k)));
      for (unsigned short j = i + 1; j < N; ++j) c = c && e.lt(tfel::math::abs(m(p(j), i)), eps);
      cases.push_back(c);
    }
    e.ensure("LU refused: at the failing column every remaining pivot candidate is below eps (partial pivoting)", any_of(cases));
    return;
  }
  const bool ok = S::back_substitute(m, p, x, eps);
  e.ensure("back substitution succeeds after a successful decomposition", ok ? e.tru() : falsum(e));
  if (ok) {
    for (unsigned short i = 0; i != N; ++i) {
      T s = T(0);
      for (unsigned short j = 0; j != N; ++j) s = s + a(i, j) * x(j);
      e.ensure("LU returned true: (A x)_" + std::to_string(i) + " = b_" + std::to_string(i), e.eq(s, b(i)));
    }
    e.ensure("LU returned true: det(A) != 0", !e.eq(det_of<N, T>(a), T(0)));
  } else {
    e.ensure("LU returned false: det(A) is small or a pivot was refused, nothing claimed", e.tru());
  }
}
// TinyMatrixInvert
template <unsigned short N, class E> void c_invert(E& e) {
  using T = typename E::real;
  const auto a = sym_matrix<N>(e);
  const T eps = e.var("eps");
  e.require(e.lt(T(0), eps));
  auto m = a;
  bool raised = false;
  try {
    TinyMatrixInvert<N, T>::exe(m, eps);
  } catch (LUException&) {
    raised = true;
  }
  if (!raised) {
    for (unsigned short i = 0; i != N; ++i)
      for (unsigned short k = 0; k != N; ++k) {
        T s = T(0);
        for (unsigned short j = 0; j != N; ++j) s = s + a(i, j) * m(j, k);
        e.ensure("no exception: (A inv(A))_" + std::to_string(i) + std::to_string(k) + " = delta", e.eq(s, T(i == k ? 1 : 0)));
      }
  } else {
    e.ensure("exception: nothing claimed", e.tru());
  }
}
// LUSolve::exe on run-time sized matrix/vector (heap storage), size fixed per contract
template <unsigned short N, class E> void c_lusolve(E& e) {
  using T = typename E::real;
  const auto a = sym_matrix<N>(e);
  const auto b = sym_vector<N>(e);
  matrix<T> m(N, N);
  vector<T> x(N);
  for (unsigned short i = 0; i != N; ++i) {
    x(i) = b(i);
    for (unsigned short j = 0; j != N; ++j) m(i, j) = a(i, j);
  }
  bool raised = false;
  try {
    LUSolve::exe(m, x);
  } catch (LUException&) {
    raised = true;
  }
  if (!raised) {
    for (unsigned short i = 0; i != N; ++i) {
      T s = T(0);
      for (unsigned short j = 0; j != N; ++j) s = s + a(i, j) * x(j);
      e.ensure("LUSolve returned: (A x)_" + std::to_string(i) + " = b_" + std::to_string(i), e.eq(s, b(i)));
    }
    e.ensure("LUSolve returned: det(A) != 0", !e.eq(det_of<N, T>(a), T(0)));
  } else {
    e.ensure("LUSolve raised: nothing claimed", e.tru());
  }
}
#define C(NAME, FN, ...) template <class E> void FN(E& e) { __VA_ARGS__(e); } VSYM_CONTRACT_B(NAME, FN, 4000)
C("TinyMatrixSolve<1>/vector", w_s1, c_solve_vector<1, false>)
C("TinyMatrixSolve<2>/vector", w_s2, c_solve_vector<2, false>)
C("TinyMatrixSolve<3>/vector", w_s3, c_solve_vector<3, false>)
C("TinyMatrixSolve<2,exceptions>/vector", w_s2x, c_solve_vector<2, true>)
C("TinyMatrixSolve<3,exceptions>/vector", w_s3x, c_solve_vector<3, true>)
C("TinyMatrixSolve<1>/matrix", w_m1, c_solve_matrix<1, 2>)
C("TinyMatrixSolve<2>/matrix", w_m2, c_solve_matrix<2, 2>)
C("TinyMatrixSolve<3>/matrix", w_m3, c_solve_matrix<3, 2>)
C("LU<2>/decomp+back_substitute", w_lu2, c_lu<2>)
C("LU<3>/decomp+back_substitute", w_lu3, c_lu<3>)
C("LUSolve(2x2)", w_ls2, c_lusolve<2>)
C("LUSolve(3x3)", w_ls3, c_lusolve<3>)
C("TinyMatrixInvert<1>", w_i1, c_invert<1>)
C("TinyMatrixInvert<2>", w_i2, c_invert<2>)
#ifdef VERIF_THOROUGH
C("TinyMatrixInvert<3>", w_i3, c_invert<3>)
#endif
#ifdef VERIF_EXPERIMENTAL  /* tens of thousands of pivoting paths: did not finish within two hours on a loaded machine; not part of either tier */
C("TinyMatrixSolve<4>/vector", w_s4, c_solve_vector<4, false>)
#endif
int main(int argc, char** argv) { return vsym::driver_main(argc, argv); }
