"""C07 — dense linear solvers (E2, exact arithmetic, N bounded)."""
from engines.symvc.discharge import run_spec


def run(ctx):
    ctx.assume("exact arithmetic: 'residual bounded by conditioning times machine precision' is a rounding statement and is NOT covered; what is proved is that the only discrepancy is rounding (A x = b exactly over the reals on every path that reports success)",
               "bounded in N, each N complete over all real matrices, right-hand sides and eps > 0: closed forms N = 1,2,3; generic LU (LUDecomp + TinyPermutation + back substitution) N = 2,3; LUSolve 2x2 and 3x3; TinyMatrixInvert N = 1,2 (thorough: 3); TinyMatrixSolve<4> is written (VERIF_EXPERIMENTAL) but its path exploration did not finish in two hours and it is in neither tier; sizes 5..12, LUSolve on run-time sized matrices and QRDecomp are out of reach",
               "every pivot comparison and tolerance test is a path split; paths are explored exhaustively (syntactic paths, infeasible ones discarded by the reachability query)")
    srcs = " ".join("%s/src/%s" % (ctx.repo, f) for f in ("Math/LUException.cxx", "Math/MathException.cxx", "Exception/TFELException.cxx"))
    run_spec(ctx, flags=("-DVERIF_THOROUGH " if ctx.thorough else "") + srcs, expect_min=40, per_timeout=600 if ctx.thorough else 60)
