"""C38 — material-property call contracts: the emitters of the bounds checks of the generic interface (E1, emission protocol)."""
import os
import re

from engines.cbmcc.run import Job, run_jobs

SRC = "mfront/src/GenericMaterialPropertyInterfaceBase.cxx"


def _emit_calls(m):
    """`os << a << "lit1\\n" "lit2" << i << ...;` -> one EMIT_LIT per emitted line fragment (adjacent literals are concatenated, then cut
    after every "\\n"), EMIT_RANK() for the rank `i`, EMIT_TOK(TOK_OTHER) for every other expression; order preserved."""
    body = m.group(1)
    parts, cur, i, instr = [], "", 0, False
    while i < len(body):
        c = body[i]
        if c == '"' and (i == 0 or body[i - 1] != "\\"):
            instr = not instr
        if not instr and body.startswith("<<", i):
            parts.append(cur.strip())
            cur = ""
            i += 2
            continue
        cur += c
        i += 1
    parts.append(cur.strip())
    out = []
    for part in parts:
        if not part:
            continue
        if part.startswith('"'):
            lits = re.findall(r'"((?:\\.|[^"\\])*)"', part)
            text = "".join(lits)
            for piece in re.findall(r'(?:\\.|[^\\])*?(?:\\n|$)', text):
                if piece:
                    out.append('EMIT_LIT("%s");' % piece)
        elif part in ("i", "nbr"):
            out.append("EMIT_RANK();")
        else:
            out.append("EMIT_TOK(TOK_OTHER);")
    return " ".join(out)


_loops = []


def _loop_head(m):
    _loops.append(1)
    return "LOOP_%s_BEGIN if (nondet_int()) {" % ("A" if len(_loops) % 2 == 1 else "B")


COMMON = [
    {"name": "message helper text (abstracted)", "re": r"const auto to_string = useQuantities\s*\?[^;]*;", "sub": "", "min": 1, "max": 1},
    {"name": "os << ... statements -> emission calls", "re": r'\bos << ((?:"(?:\\.|[^"\\])*"|[^;"])*);', "sub": _emit_calls, "min": 3},
    {"name": "bounds type", "re": r"\bb\.boundsType", "sub": "b_boundsType", "min": 2},
    {"name": "enumerators", "re": r"VariableBoundsDescription::", "sub": "VariableBoundsDescription_", "min": 2},
    {"name": "no unmapped C++ may remain (outside the emitted literals)", "forbid": r"std::|<<|\bos\b|\[&|\bv\.", "outside_strings": True},
]
BODIES = [
    dict(name="writePhysicalBounds", generic=False, file=SRC, pattern=r"static void writePhysicalBounds\(std::ostream& os,", rules=[
        {"name": "variable description accessor", "re": r"\bv\.hasPhysicalBounds\(\)", "sub": "v_hasPhysicalBounds()", "min": 1, "max": 1},
        {"name": "bounds object (content abstracted)", "re": r"const auto& b = v\.getPhysicalBounds\(\);", "sub": "", "min": 1, "max": 1}] + COMMON),
    dict(name="writeBounds", generic=False, file=SRC, pattern=r"static void writeBounds\(std::ostream& os,", rules=[
        {"name": "variable description accessor", "re": r"\bv\.hasBounds\(\)", "sub": "v_hasBounds()", "min": 1, "max": 1},
        {"name": "bounds object (content abstracted)", "re": r"const auto& b = v\.getBounds\(\);", "sub": "", "min": 1, "max": 1}] + COMMON),
    # the part of writeSrcFile that emits the body of the generated function (from the mfront_report lambda to the end)
    dict(name="writeSrcFile", generic=False, file=SRC, pattern=r"void GenericMaterialPropertyInterfaceBase::writeSrcFile\(", rules=[
        {"name": "everything before the body of the generated function is dropped (includes, symbols, signature)", "re": r'\A.*?(?=os << "auto mfront_report = ")', "sub": "{ ", "min": 1, "max": 1},
        {"name": "run-time checks switch", "re": r"areRuntimeChecksDisabled\(mpd\)", "sub": "runtime_checks_disabled", "min": 5},
        {"name": "parameters handler test", "re": r"\(!areParametersTreatedAsStaticVariables\(mpd\)\) && \(!params\.empty\(\)\)", "sub": "(!parameters_static) && (!params_empty)", "min": 1, "max": 1},
        {"name": "handler class name (text abstracted)", "re": r"const auto hn = getMaterialPropertyParametersHandlerClassName\(name\);", "sub": "", "min": 1, "max": 1},
        {"name": "parameter assignments (assumed to emit no return and not to touch errno)", "re": r"writeAssignMaterialPropertyParameters\(os, mpd, name, \"real\", iname\);", "sub": "EMIT_TOK(TOK_OTHER);", "min": 1, "max": 1},
        {"name": "declarations of the inputs (one `const auto x = *(mfront_params+k);` each: no return, no errno)", "drop_block": r"if \(!mpd\.inputs\.empty\(\)\) \{", "sub": "EMIT_TOK(TOK_OTHER);", "min": 1},
        {"name": "bounds predicates on the inputs", "re": r"\bhas(PhysicalBounds|Bounds)\(mpd\.inputs\)", "sub": lambda m: "inputs_have_physical_bounds" if m.group(1) == "PhysicalBounds" else "inputs_have_bounds", "min": 4},
        {"name": "per-input loops: rendered as their own inductive check (invariant asserted, ghost state havocked, invariant assumed, one arbitrary iteration, invariant asserted; the code after the loop runs from an arbitrary state satisfying the invariant)",
         "re": r"for \(decltype\(mpd\.inputs\.size\(\)\) i = 0; i != mpd\.inputs\.size\(\); \+\+i\) \{", "sub": _loop_head, "min": 2, "max": 2},
        {"name": "end of the first per-input loop", "after_block": r"LOOP_A_BEGIN if \(nondet_int\(\)\) ", "insert": " LOOP_END", "min": 1},
        {"name": "end of the second per-input loop", "after_block": r"LOOP_B_BEGIN if \(nondet_int\(\)\) ", "insert": " LOOP_END", "min": 1},
        {"name": "calls of the physical-bounds emitter", "re": r"writePhysicalBounds\(os,[^;]*;", "sub": "call_writePhysicalBounds();", "min": 2, "max": 2},
        {"name": "calls of the bounds emitter", "re": r"writeBounds\(os,[^;]*;", "sub": "call_writeBounds();", "min": 2, "max": 2},
        {"name": "the user's function body", "re": r"os << function\.body;", "sub": "EMIT_TOK(TOK_BODY);", "min": 1, "max": 1},
        {"name": "bounds predicates on the output", "re": r"mpd\.output\.has(PhysicalBounds|Bounds)\(\)", "sub": lambda m: "output_has_physical_bounds" if m.group(1) == "PhysicalBounds" else "output_has_bounds", "min": 4},
        {"name": "quantities switch", "re": r"useQuantities\(mpd\)", "sub": "use_quantities", "min": 1},
        {"name": "stream closed", "re": r"os\.close\(\);", "sub": "", "min": 1, "max": 1},
        {"name": "os << ... statements -> emission calls", "re": r'\bos << ((?:"(?:\\.|[^"\\])*"|[^;"])*);', "sub": _emit_calls, "min": 15},
        {"name": "no unmapped C++ may remain (outside the emitted literals)", "forbid": r"std::|<<|\bos\b|\[&|mpd\.|\bname\b|iname", "outside_strings": True}]),
]

CSRC = "mfront/src/CMaterialPropertyInterfaceBase.cxx"


def _cemit_calls(m):
    return _emit_calls(m).replace("EMIT_LIT(", "CEMIT_LIT(").replace("EMIT_RANK(", "CEMIT_RANK(").replace("EMIT_TOK(", "CEMIT_TOK(")


def _c_loop(kind):
    return [
        {"name": "range-for over the inputs: rendered as its own inductive check", "re": r"for \(const auto& i : mpd\.inputs\) \{", "sub": "CLOOP_%s_BEGIN {" % kind, "min": 1, "max": 1},
        {"name": "end of the loop", "after_block": r"CLOOP_%s_BEGIN " % kind, "insert": " CLOOP_%s_END" % kind, "min": 1},
        {"name": "variable description accessor", "re": r"\bi\.has(PhysicalBounds|Bounds)\(\)", "sub": lambda m: "i_hasPhysicalBounds()" if m.group(1) == "PhysicalBounds" else "i_hasBounds()", "min": 1, "max": 1},
        {"name": "bounds object (content abstracted)", "re": r"const auto& b = i\.get(?:Physical)?Bounds\(\);", "sub": "", "min": 1, "max": 1},
        {"name": "rank of the input (getVariableNumber: position + 1; abstracted as the rank token)", "re": r"const auto nbr =\s*CMaterialPropertyInterfaceBase::getVariableNumber\(mpd, i\.name\);", "sub": "", "min": 1, "max": 1},
        {"name": "cast text (abstracted)", "re": r"const auto cast_(?:start|end) = useQuantities\(mpd\) \? [^;]*;", "sub": "", "min": 2, "max": 2},
        {"name": "out << ... statements -> emission calls", "re": r'\bout << ((?:"(?:\\.|[^"\\])*"|[^;"])*);', "sub": _cemit_calls, "min": 3},
        {"name": "bounds type", "re": r"\bb\.boundsType", "sub": "b_boundsType", "min": 2},
        {"name": "enumerators", "re": r"VariableBoundsDescription::", "sub": "VariableBoundsDescription_", "min": 2},
        {"name": "no unmapped C++ may remain (outside the emitted literals)", "forbid": r"std::|<<|\bout\b|\[&|\bi\.|mpd", "outside_strings": True},
    ]


CBODIES = [
    dict(name="C_writePhysicalBounds", generic=False, file=CSRC, pattern=r"static void writePhysicalBounds\(std::ostream& out,", rules=_c_loop("P")),
    dict(name="C_writeBounds", generic=False, file=CSRC, pattern=r"static void writeBounds\(std::ostream& out,", rules=_c_loop("S")),
    dict(name="C_checkBoundsBody", generic=False, file=CSRC, pattern=r"void CMaterialPropertyInterfaceBase::writeMaterialPropertyCheckBoundsBody\(", rules=[
        {"name": "preamble of the generated function (typedefs, interface variables, unused-argument casts: no return)", "re": r"\A.*?(?=if \(!areRuntimeChecksDisabled\(mpd\)\) \{)", "sub": "{ ", "min": 1, "max": 1},
        {"name": "run-time checks switch", "re": r"areRuntimeChecksDisabled\(mpd\)", "sub": "runtime_checks_disabled", "min": 1, "max": 1},
        {"name": "bounds predicates on the inputs", "re": r"\bhas(PhysicalBounds|Bounds)\(mpd\.inputs\)", "sub": lambda m: "inputs_have_physical_bounds_c" if m.group(1) == "PhysicalBounds" else "inputs_have_bounds_c", "min": 2, "max": 2},
        {"name": "call of the physical-bounds emitter", "re": r"writePhysicalBounds\(os, mpd\);", "sub": "C_writePhysicalBounds();", "min": 1, "max": 1},
        {"name": "call of the standard-bounds emitter", "re": r"writeBounds\(os, mpd\);", "sub": "C_writeBounds();", "min": 1, "max": 1},
        {"name": "os << ... statements -> emission calls", "re": r'\bos << ((?:"(?:\\.|[^"\\])*"|[^;"])*);', "sub": _cemit_calls, "min": 3},
        {"name": "no unmapped C++ may remain (outside the emitted literals)", "forbid": r"std::|<<|\bos\b|\[&|mpd", "outside_strings": True}]),
]


def run(ctx):
    ctx.assume("the emitters of the generic material-property interface (writePhysicalBounds, writeBounds, and the part of writeSrcFile that emits the body of the generated function, verified against the two others' contracts; run-time checks enabled, any number of inputs) in mfront/src/GenericMaterialPropertyInterfaceBase.cxx are under contract, as an emission protocol: every `os << ...` statement is rendered as EMIT_LIT (one call per emitted line fragment) / EMIT_RANK / EMIT_TOK calls in the same order and control flow; names, types, bound values and message texts are abstracted",
               "the ghost automaton reads the emitted text: restoration of errno before every emitted return, sign of status against sign of the rank, policy tests; it does not parse the generated C++ (brace structure, the conditions themselves)",
               "assumed: writeAssignMaterialPropertyParameters and the declarations of the inputs emit no return and no errno statement (their text is abstracted); the user's function body may set errno and contains no return; C interface: the emitters of <law>_checkBounds (writePhysicalBounds, writeBounds, writeMaterialPropertyCheckBoundsBody in mfront/src/CMaterialPropertyInterfaceBase.cxx) under the same kind of contract (returns -rank, then +rank, then 0); NOT covered: the conditions guarding each emitted status (the text of the tests), the rank value (getVariableNumber), the message buffer, and the behaviour of the compiled generated code (that would need mfront rebuilt from the working tree on every run)")
    tpl = os.path.join(ctx.spec_dir, "emitter.c.in")
    jobs = [Job("emitter_writePhysicalBounds", tpl, bodies=BODIES, enforce="writePhysicalBounds", harness="h_writePhysicalBounds", unwind=80, min_obligations=4, drop_checks=["--conversion-check"]),
            Job("emitter_writeBounds", tpl, bodies=BODIES, enforce="writeBounds", harness="h_writeBounds", unwind=80, min_obligations=4, drop_checks=["--conversion-check"]),
            Job("emitter_writeSrcFile_body", tpl, bodies=BODIES, enforce="writeSrcFile_body", harness="h_writeSrcFile_body", replace=["writePhysicalBounds", "writeBounds"], unwind=80,
                min_obligations=5, drop_checks=["--conversion-check"])]
    jobs += [Job("C_checkBounds_writePhysicalBounds", tpl, bodies=BODIES + CBODIES, enforce="C_writePhysicalBounds", harness="h_C_writePhysicalBounds", unwind=80, min_obligations=2, drop_checks=["--conversion-check"]),
             Job("C_checkBounds_writeBounds", tpl, bodies=BODIES + CBODIES, enforce="C_writeBounds", harness="h_C_writeBounds", unwind=80, min_obligations=2, drop_checks=["--conversion-check"]),
             Job("C_checkBounds_body", tpl, bodies=BODIES + CBODIES, enforce="C_checkBoundsBody", harness="h_C_checkBoundsBody", replace=["C_writePhysicalBounds", "C_writeBounds"], unwind=80, min_obligations=3, drop_checks=["--conversion-check"])]
    for j in jobs[:3]:
        j.bodies = BODIES + CBODIES
    run_jobs(ctx, jobs)
