"""C30 — child exit status reported faithfully (E1): decode for all 2^32 statuses; SIGCHLD handler, wait and execute under
sequential contracts in which the nondeterministic waitpid stub carries every order of child exit, handler and waitpid."""
import os

from engines.cbmcc.run import Job, run_jobs

F = "src/System/ProcessManager.cxx"
LOCK = {"name": "std::lock_guard on processesAccess dropped (mutex not modelled)", "re": r"std::lock_guard<std::mutex> guard\(processesAccess\);", "sub": ""}
PID = [{"name": "p->id : identity of the slot", "re": r"\bp->id\b", "sub": "PID_OF(p)"}, {"name": "p.id : identity of the slot", "re": r"\bp\.id\b", "sub": "PID_OF(&p)"}]
GLOBAL = {"name": "global-scope qualifier", "re": r"(?<![\w:])::(\w)", "sub": r"\1"}
NOCPP = {"name": "no unmapped C++ may remain", "forbid": r"this->|tfel::|std::|<<|\.get\(\)"}
SETSTATUS = {"name": "this->setProcessExitStatus(*p, status) ; exception propagates", "re": r"this->setProcessExitStatus\(\*p, status\);",
             "sub": "ProcessManager_setProcessExitStatus(p, status); if (g_threw) return;", "min": 1, "max": 1}
MSG_THROW = {"name": "message building + throw -> ghost exception flag", "re": r"std::ostringstream msg;\s*msg <<[^;]*;\s*(?:msg <<[^;]*;\s*)*(?:throw\(SystemError\(msg\.str\(\)\)\)|systemCall::throwSystemError\(msg\.str\(\), errno\)|tfel::raise<SystemError>\(msg\.str\(\)\));",
             "sub": "THROW;", "min": 1}
BODIES = [
    dict(name="setProcessExitStatus", file=F, pattern=r"void ProcessManager::setProcessExitStatus\(ProcessManager::Process& p,", rules=[
        {"name": "this->closeProcessFiles", "re": r"this->closeProcessFiles\(", "sub": "closeProcessFiles(", "min": 1, "max": 1}, MSG_THROW] + PID + [GLOBAL, NOCPP]),
    dict(name="sigChildHandler", file=F, pattern=r"void ProcessManager::sigChildHandler\(const int\)", rules=[
        dict(LOCK, min=1),
        {"name": "range-for over this->processes -> index loop with its loop contract", "re": r"for \(auto& p : this->processes\) \{",
         "sub": ("for (int i_p = 0; i_p < this_nprocesses; ++i_p)\n"
                 "  __CPROVER_assigns(i_p, __CPROVER_object_whole(g_proc), __CPROVER_object_whole(g_reaped), g_threw, g_errno)\n"
                 "  __CPROVER_loop_invariant(0 <= i_p && i_p <= this_nprocesses && g_threw == 0 && CONSISTENT(g_k))\n"
                 "  __CPROVER_decreases(this_nprocesses - i_p)\n"
                 "  { Process* const p = this_processes[i_p];"), "min": 1, "max": 1},
        {"name": "null test on the shared_ptr", "re": r"p\.get\(\) == nullptr", "sub": "p == NULL", "min": 1},
        SETSTATUS] + PID + [GLOBAL, NOCPP]),
    dict(name="wait", file=F, pattern=r"void ProcessManager::wait\(const ProcessId pid\)", rules=[
        {"name": "findProcess", "re": r"auto p = this->findProcess\(pid\);", "sub": "Process* const p = findProcess(pid);", "min": 1, "max": 1},
        {"name": "null test on the shared_ptr", "re": r"p\.get\(\) == nullptr", "sub": "p == NULL", "min": 1},
        MSG_THROW, SETSTATUS,
        {"name": "loop contract of the EINTR retry loop (if present)", "re": r"while \((\(ret == -1\) && \(errno == \w+\))\) \{",
         "sub": (r"while (\1)" "\n"
                 "  __CPROVER_assigns(ret, status, __CPROVER_object_whole(g_proc), __CPROVER_object_whole(g_reaped), g_threw, g_errno, g_in_handler)\n"
                 "  __CPROVER_loop_invariant(g_threw == 0 && g_in_handler == 0 && SPEC_TERMINATED(g_true_status[g_k]) && "
                 "((ret == pid && g_proc[g_k].isRunning && g_reaped[g_k] && status == g_true_status[g_k]) || (ret == -1 && CONSISTENT(g_k) && (g_errno == EINTR || g_reaped[g_k]))))\n"
                 "  {")},
        ] + PID + [GLOBAL, NOCPP]),
    dict(name="execute", file=F, pattern=r"void ProcessManager::execute\(const std::string& directory,", rules=[
        {"name": "createProcess -> stub (registers the child; the handler may already have run)", "re": r"const auto pid = this->createProcess\(directory, cmd, in, out, e\);", "sub": "const ProcessId pid = createProcess_stub();", "min": 1, "max": 1},
        {"name": "this->wait(pid) ; exception propagates", "re": r"this->wait\(pid\);", "sub": "ProcessManager_wait(pid); if (g_threw) return;", "min": 1, "max": 1},
        {"name": "findProcess", "re": r"auto p = this->findProcess\(pid\);", "sub": "Process* const p = findProcess(pid);", "min": 1, "max": 1},
        {"name": "null test on the shared_ptr", "re": r"p\.get\(\) == nullptr", "sub": "p == NULL", "min": 1},
        MSG_THROW,
        {"name": "tfel::raise(...) -> ghost exception flag", "re": r"tfel::raise(?:<SystemError>)?\([^;]*\);", "sub": "THROW;", "min": 2},
        ] + PID + [GLOBAL, NOCPP]),
]


def run(ctx):
    ctx.assume("POSIX waitpid behaves as its stub says: it returns the pid and writes *status once per child, or returns -1 (ECHILD when the status was already consumed, EINTR) or 0 (WNOHANG, child alive) and leaves *status unwritten; blocking waitpid is never called with WUNTRACED, so reported statuses are exit or signal death",
               "asynchrony enters through the stub: before a blocking waitpid takes effect the child may terminate and the extracted SIGCHLD handler may run to completion (this covers 'handler before', 'handler inside (EINTR)' and 'handler after' the waitpid of wait()); true parallel execution of the handler on another thread (data race on the Process record, mutex processesAccess) is NOT modelled",
               "the pid of a registered process is its identity (distinct per slot, never modified): `p->id` is rendered as the slot's pid; pid reuse by the kernel is not modelled",
               "closeProcessFiles, findProcess and createProcess are assumed-contract stubs (createProcess registers the child as running); message strings and exception types are dropped",
               "--conversion-check is off for these jobs: glibc's WIFSIGNALED narrows (status & 0x7f) + 1 to signed char on purpose (implementation-defined, not the property)",
               "at most 16 registered processes per manager (array bound of the ghost state; the loop contract of the handler does not depend on it)")
    tpl = os.path.join(ctx.spec_dir, "pm.c.in")
    common = dict(bodies=BODIES, includes=[ctx.repo + "/src/System", ctx.repo + "/include"], unwind=18, drop_checks=["--conversion-check"])
    jobs = [
        Job("setProcessExitStatus", tpl, enforce="ProcessManager_setProcessExitStatus", needs=["setProcessExitStatus"], min_obligations=4, **common),
        Job("sigChildHandler", tpl, enforce="h_handler_target", harness="h_h_handler_target", replace=["ProcessManager_setProcessExitStatus"], loop_contracts=True,
            needs=["setProcessExitStatus", "sigChildHandler"], min_obligations=3, **common),
        Job("wait", tpl, enforce="ProcessManager_wait", replace=["ProcessManager_setProcessExitStatus"], loop_contracts=True,
            needs=["setProcessExitStatus", "sigChildHandler", "wait"], min_obligations=4, **common),
        Job("execute", tpl, enforce="ProcessManager_execute", replace=["ProcessManager_setProcessExitStatus", "ProcessManager_wait"], loop_contracts=True,
            needs=["setProcessExitStatus", "sigChildHandler", "wait", "execute"], min_obligations=2, **common),
        Job("decode", tpl, harness="h_decode", needs=[], min_obligations=4, vacuity=False, **common),
    ]
    run_jobs(ctx, jobs, replay_fn=replay)


def replay(ctx, job, ob):
    """replay/C30.cxx: the real ProcessManager of the working tree with waitpid interposed so that the SIGCHLD handler reaps the
    child before the blocking waitpid of wait() takes effect; `false` must make execute() throw, `true` must not, whatever stale
    value lies where wait()'s local `status` lives."""
    if job.name not in ("wait", "execute"):
        return None
    from engines import replay as R
    srcs = ["src/System/ProcessManager.cxx", "src/System/ProcessManager-c.c", "src/System/SignalManager.cxx", "src/System/SignalHandler.cxx", "src/System/System.cxx",
            "src/System/SystemError.cxx", "src/System/basic_rstream.cxx", "src/System/basic_wstream.cxx", "src/Exception/TFELException.cxx"]
    ok, out = R.native(ctx, "C30.cxx", [], extra_flags="-w", libs="-ldl -lpthread", extra_src=srcs)
    ob.detail += " | native replay (handler reaps before the blocking waitpid): %s" % out.strip().replace("\n", " ; ")[-400:]
    return ok
