// Native replay for C04: calls the real TFEL / FSES functions with the verifier's inputs.
#include <bit>
#include <cmath>
#include <cstdint>
#include <cstdio>
#include <cstdlib>
#include <cstring>
#include <string>
#include <vector>
#include "TFEL/Math/stensor.hxx"
#include "TFEL/Math/Stensor/Internals/SortEigenValues.hxx"
#include "TFEL/Math/Stensor/Internals/SortEigenVectors.hxx"
#include "FSES/Utilities.hxx"
using namespace tfel::math;
static double D(const char* h) { return std::bit_cast<double>(static_cast<std::uint64_t>(std::strtoull(h, nullptr, 16))); }
static bool same(double a, double b) { return (std::isnan(a) && std::isnan(b)) || std::bit_cast<std::uint64_t>(a) == std::bit_cast<std::uint64_t>(b); }
int main(int argc, char** argv) {
  // usage: job o v0 v1 v2 [m00..m22]
  const std::string job = argv[1];
  const int o = std::atoi(argv[2]);
  double v[3] = {D(argv[3]), D(argv[4]), D(argv[5])};
  double m[9] = {0, 1, 2, 3, 4, 5, 6, 7, 8};
  if (argc >= 15) for (int i = 0; i < 9; ++i) m[i] = D(argv[6 + i]);
  const auto so = static_cast<stensor_common::EigenValuesOrdering>(o);
  double r[3]; double rm[9];
  std::memcpy(rm, m, sizeof m);
  int n = 3;
  if (job == "sortEigenValues") {
    const auto x = sortEigenValues(tvector<3u, double>{v[0], v[1], v[2]}, so);
    for (int i = 0; i < 3; ++i) r[i] = x[i];
  } else if (job == "SortEigenValues3" || job == "SortEigenValues2") {
    double a = v[0], b = v[1], c = v[2];
    if (job == "SortEigenValues3") internals::SortEigenValues<3u>::exe(a, b, c, so);
    else { internals::SortEigenValues<2u>::exe(a, b, c, so); n = 2; }
    r[0] = a; r[1] = b; r[2] = c;
  } else if (job == "SortEigenVectors3" || job == "SortEigenVectors2") {
    tvector<3u, double> vp{v[0], v[1], v[2]};
    tmatrix<3u, 3u, double> mm;
    for (int i = 0; i < 3; ++i) for (int j = 0; j < 3; ++j) mm(i, j) = m[3 * i + j];
    if (job == "SortEigenVectors3") internals::SortEigenVectors<3u>::exe(vp, mm, so);
    else { internals::SortEigenVectors<2u>::exe(vp, mm, so); n = 2; }
    for (int i = 0; i < 3; ++i) { r[i] = vp[i]; for (int j = 0; j < 3; ++j) rm[3 * i + j] = mm(i, j); }
  } else if (job == "fses_sort") {
    tvector<3u, double> vp{v[0], v[1], v[2]};
    tmatrix<3u, 3u, double> mm;
    for (int i = 0; i < 3; ++i) for (int j = 0; j < 3; ++j) mm(i, j) = m[3 * i + j];
    fses::sort(mm, vp, static_cast<fses::EigenValuesOrdering>(o));
    for (int i = 0; i < 3; ++i) { r[i] = vp[i]; for (int j = 0; j < 3; ++j) rm[3 * i + j] = mm(i, j); }
  } else { std::printf("unknown job\n"); return 2; }
  std::printf("input  o=%d v=(%g,%g,%g)\noutput v=(%g,%g,%g)\n", o, v[0], v[1], v[2], r[0], r[1], r[2]);
  bool ok = true;
  // sorted
  for (int i = 0; i + 1 < n; ++i) {
    if (o == 0 && !(r[i] <= r[i + 1])) ok = false;
    if (o == 1 && !(r[i] >= r[i + 1])) ok = false;
  }
  // permutation of (value, column) pairs
  bool perm = false;
  const int P[6][3] = {{0, 1, 2}, {0, 2, 1}, {1, 0, 2}, {1, 2, 0}, {2, 0, 1}, {2, 1, 0}};
  for (auto& p : P) {
    bool q = true;
    for (int k = 0; k < 3; ++k) {
      q = q && same(r[k], v[p[k]]);
      for (int i = 0; i < 3; ++i) q = q && same(rm[3 * i + k], m[3 * i + p[k]]);
    }
    if (n == 2 && p[2] != 2) q = false;
    if (o == 2 && !(p[0] == 0 && p[1] == 1)) q = false;
    perm = perm || q;
  }
  ok = ok && perm;
  std::printf(ok ? "NOT-REPRODUCED (postcondition holds natively)\n" : "REPRODUCED: postcondition violated on the real code\n");
  return 0;
}
