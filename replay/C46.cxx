// Native replay for C46: runs the real MFrontLock (mfront/src/MFrontLock.cxx of the working tree) in child processes that
// exit normally, and compares the value of the named semaphore before and after. Restores the value afterwards.
#include <cstdio>
#include <cstdlib>
#include <iostream>
#include <semaphore.h>
#include <fcntl.h>
#include <sys/wait.h>
#include <unistd.h>
#include "MFront/MFrontLogStream.hxx"
namespace mfront {
  static VerboseLevel verif_level = VERBOSE_QUIET;
  VerboseLevel& getVerboseMode() { return verif_level; }
  std::ostream& getLogStream() { return std::cerr; }
}
#include VERIF_MFRONTLOCK_CXX

static int semvalue() {
  char n[64];
  snprintf(n, 64, "/mfront-%d", static_cast<int>(geteuid()));
  sem_t* s = sem_open(n, O_CREAT, S_IRUSR | S_IWUSR, 1);
  int v = -1;
  sem_getvalue(s, &v);
  sem_close(s);
  return v;
}
static void child(const bool take) {
  if (fork() == 0) {
    if (take) { mfront::MFrontLockGuard g; }
    else { mfront::MFrontLock::getMFrontLock(); }
    exit(0);  // normal exit: static destructors run
  }
  int st; wait(&st);
}
int main() {
  const int v0 = semvalue();
  child(false);
  const int v1 = semvalue();
  child(true);
  const int v2 = semvalue();
  // restore
  char n[64];
  snprintf(n, 64, "/mfront-%d", static_cast<int>(geteuid()));
  sem_t* s = sem_open(n, 0);
  for (int v = v2; v > v0; --v) sem_trywait(s);
  std::printf("semaphore value: before=%d after-a-run-without-locking=%d after-a-run-with-a-guarded-section=%d\n", v0, v1, v2);
  if (v1 != v0 || v2 != v0) { std::printf("REPRODUCED: a normally exiting process changed the semaphore count\n"); return 1; }
  std::printf("NOT-REPRODUCED\n");
  return 0;
}
