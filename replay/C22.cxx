// Native replay for C22: normal / second derivative of a stress criterion at the counterexample input against centred finite
// differences of the real code's own value / normal (double precision, Richardson-free: h = 1e-5 * scale, tolerance 1e-5 relative).
// args: <criterion: drucker|cazacu2004> <N> <what: normal|second> c seps s0 s1 ...
#include <cmath>
#include <cstdio>
#include <cstdlib>
#include <cstring>
#include <string>
#include "TFEL/Config/TFELConfig.hxx"
#include "TFEL/Math/stensor.hxx"
#include "TFEL/Math/st2tost2.hxx"
#include "TFEL/Material/IsotropicPlasticity.hxx"
#include "TFEL/Material/Drucker1949YieldCriterion.hxx"
#include "TFEL/Material/Cazacu2004IsotropicYieldCriterion.hxx"
using namespace tfel::math;
using namespace tfel::material;
template <unsigned short N> int run(const std::string& crit, const std::string& what, const double c, const double seps, char** v) {
  constexpr unsigned short n = StensorDimeToSize<N>::value;
  stensor<N, double> s;
  double scale = 0;
  for (unsigned short i = 0; i != n; ++i) { s[i] = std::atof(v[i]); scale = std::max(scale, std::fabs(s[i])); }
  const double h = 1e-5 * (scale > 0 ? scale : 1);
  auto value = [&](const stensor<N, double>& x) { return crit == "drucker" ? computeDrucker1949StressCriterion(x, c) : computeCazacu2004IsotropicStressCriterion(x, c); };
  auto normal = [&](const stensor<N, double>& x) { return crit == "drucker" ? std::get<1>(computeDrucker1949StressCriterionNormal(x, c, seps)) : std::get<1>(computeCazacu2004IsotropicStressCriterionNormal(x, c, seps)); };
  auto second = [&](const stensor<N, double>& x) { return crit == "drucker" ? std::get<2>(computeDrucker1949StressCriterionSecondDerivative(x, c, seps)) : std::get<2>(computeCazacu2004IsotropicStressCriterionSecondDerivative(x, c, seps)); };
  double worst = 0, ref = 0;
  if (what == "normal") {
    const auto nn = normal(s);
    for (unsigned short j = 0; j != n; ++j) {
      auto sp = s, sm = s; sp[j] += h; sm[j] -= h;
      const double fd = (value(sp) - value(sm)) / (2 * h);
      worst = std::max(worst, std::fabs(fd - nn[j])); ref = std::max(ref, std::fabs(fd));
    }
  } else {
    const auto dn = second(s);
    for (unsigned short j = 0; j != n; ++j) {
      auto sp = s, sm = s; sp[j] += h; sm[j] -= h;
      const auto np = normal(sp), nm = normal(sm);
      for (unsigned short i = 0; i != n; ++i) {
        const double fd = (np[i] - nm[i]) / (2 * h);
        worst = std::max(worst, std::fabs(fd - dn(i, j))); ref = std::max(ref, std::fabs(fd));
      }
    }
  }
  std::printf("%s %uD %s: max |analytical - finite difference| = %g (scale %g)\n", crit.c_str(), static_cast<unsigned>(N), what.c_str(), worst, ref);
  if (worst > 1e-5 * (ref > 0 ? ref : 1)) { std::printf("REPRODUCED: the returned %s is not the derivative\n", what == "normal" ? "normal" : "second derivative"); return 1; }
  std::printf("NOT-REPRODUCED\n");
  return 0;
}
int main(int argc, char** argv) {
  if (argc < 6) return 2;
  const std::string crit = argv[1], what = argv[3];
  const int N = std::atoi(argv[2]);
  const double c = std::atof(argv[4]), seps = std::atof(argv[5]);
  if (N == 1) return run<1>(crit, what, c, seps, argv + 6);
  if (N == 2) return run<2>(crit, what, c, seps, argv + 6);
  return run<3>(crit, what, c, seps, argv + 6);
}
