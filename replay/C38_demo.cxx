// C38 native demonstration. Reproduce with a built mfront:  mfront --interface=generic C38_UpperOnly.mfront && g++ -std=c++20 -Iinclude -I<repo>/include -I<repo>/mfront/include src/UpperOnly-generic.cxx C38_demo.cxx -o demo && ./demo
// Before the fix e9c5074db the call returned with errno = 0 although the caller had set errno = 33 (exit status 1); with the fix errno is 33 (exit 0).
#include <cerrno>
#include <cstdio>
#include "UpperOnly-generic.hxx"
int main() {
  mfront_gmp_OutputStatus st;
  const mfront_gmp_real T = 150;  // above the upper bound 100
  errno = 33;                      // EDOM, set by the caller before the call
  const double r = UpperOnly(&st, &T, 1, GENERIC_MATERIALPROPERTY_STRICT_POLICY);
  std::printf("status=%d bounds_status=%d result=%g errno after the call=%d (33 before)\n", st.status, st.bounds_status, r, errno);
  return errno == 33 ? 0 : 1;
}
