// Native replay for C30: the real ProcessManager (src/System of the working tree) with waitpid interposed so that the blocking
// call made by ProcessManager::wait is delayed until the SIGCHLD handler has reaped the child (one of the schedules the
// property quantifies over). `false` (exit status 1) must make execute() throw; `true` must not.
#include <cerrno>
#include <cstdio>
#include <cstring>
#include <ctime>
#include <dlfcn.h>
#include <iostream>
#include <sys/wait.h>
#include <unistd.h>
#include "TFEL/System/ProcessManager.hxx"

static int delay_ms = 300;
extern "C" pid_t waitpid(pid_t pid, int* st, int options) {
  using fn = pid_t (*)(pid_t, int*, int);
  static fn real = reinterpret_cast<fn>(dlsym(RTLD_NEXT, "waitpid"));
  if (options == 0 && delay_ms > 0) {
    timespec t0, t;
    clock_gettime(CLOCK_MONOTONIC, &t0);
    do {  // sleep through the interruption by SIGCHLD
      timespec d{0, 20000000};
      nanosleep(&d, nullptr);
      clock_gettime(CLOCK_MONOTONIC, &t);
    } while ((t.tv_sec - t0.tv_sec) * 1000 + (t.tv_nsec - t0.tv_nsec) / 1000000 < delay_ms);
  }
  return real(pid, st, options);
}
// leaves a chosen bit pattern where the next frames put their locals (the `int status` of ProcessManager::wait is not initialised)
__attribute__((noinline)) static void paint_stack(const int v) {
  volatile int a[4096];
  for (int i = 0; i < 4096; ++i) a[i] = v;
}
static int run(const char* cmd, const int paint, const bool expect_throw) {
  tfel::system::ProcessManager pm;
  bool threw = false;
  std::string what;
  paint_stack(paint);
  try {
    pm.execute(cmd);
  } catch (std::exception& e) {
    threw = true;
    what = e.what();
  }
  std::printf("execute(\"%s\") with stale stack pattern 0x%x: %s %s\n", cmd, paint, threw ? "threw" : "returned normally", what.c_str());
  return threw == expect_throw ? 0 : 1;
}
int main(int argc, char** argv) {
  if (argc > 1) delay_ms = atoi(argv[1]);
  int bad = 0;
  bad += run("false", 0x0000, true);             // stale 0 decodes as "exited with 0"
  bad += run("true", 0x0300, false);               // stale 0x0300 decodes as "exited with 3"
  bad += run("true", 0x0009, false);               // stale 9 decodes as "killed by signal 9"
  if (bad) { std::printf("REPRODUCED: %d verdict(s) of execute() do not match the child's exit status when the handler reaps first\n", bad); return 1; }
  std::printf("NOT-REPRODUCED\n");
  return 0;
}
