// Native replay for C23: convert<DS_DF, DS_DEGL> (and DS_DF from DS_DC) of the working tree against centred finite differences of
// S(F) = a + D : E_GL(F) in double precision. args: none (fixed generic F, D, a) -> REPRODUCED / NOT-REPRODUCED
#include <cmath>
#include <cstdio>
#include "TFEL/Config/TFELConfig.hxx"
#include "TFEL/Math/stensor.hxx"
#include "TFEL/Math/tensor.hxx"
#include "TFEL/Math/st2tost2.hxx"
#include "TFEL/Math/t2tost2.hxx"
#include "TFEL/Material/FiniteStrainBehaviourTangentOperator.hxx"
using namespace tfel::math;
using namespace tfel::material;
using TO = FiniteStrainBehaviourTangentOperatorBase;
int main() {
  constexpr unsigned short N = 3;
  tensor<N, double> F = {1.1, 0.9, 1.05, 0.1, -0.05, 0.07, 0.02, -0.03, 0.04};
  st2tost2<N, double> D;
  for (unsigned short i = 0; i < 6; ++i) for (unsigned short j = 0; j < 6; ++j) D(i, j) = 1.0 + 0.37 * i - 0.21 * j + 0.05 * i * j;
  const stensor<N, double> a = {1., -2., 0.5, 0.3, -0.7, 0.2};
  auto S = [&](const tensor<N, double>& f) { const stensor<N, double> e = computeGreenLagrangeTensor(f); return stensor<N, double>(a + D * e); };
  const stensor<N, double> sig(0.);
  const t2tost2<N, double> K = convert<TO::DS_DF, TO::DS_DEGL>(D, tensor<N, double>::Id(), F, sig);
  const st2tost2<N, double> DC = convert<TO::DS_DC, TO::DS_DEGL>(D, tensor<N, double>::Id(), F, sig);
  const t2tost2<N, double> K2 = convert<TO::DS_DF, TO::DS_DC>(DC, tensor<N, double>::Id(), F, sig);
  double worst = 0, worst2 = 0, ref = 0;
  const double h = 1e-6;
  for (unsigned short j = 0; j < 9; ++j) {
    auto fp = F, fm = F; fp[j] += h; fm[j] -= h;
    const auto sp = S(fp), sm = S(fm);
    for (unsigned short i = 0; i < 6; ++i) {
      const double fd = (sp[i] - sm[i]) / (2 * h);
      worst = std::max(worst, std::fabs(K(i, j) - fd)); worst2 = std::max(worst2, std::fabs(K2(i, j) - fd)); ref = std::max(ref, std::fabs(fd));
    }
  }
  std::printf("DS_DEGL->DS_DF: max |converted - finite difference of S(F)| = %g ; via DS_DC: %g (scale %g)\n", worst, worst2, ref);
  if (worst > 1e-5 * ref || worst2 > 1e-5 * ref) { std::printf("REPRODUCED: the converted operator is not dS/dF\n"); return 1; }
  std::printf("NOT-REPRODUCED\n");
  return 0;
}
