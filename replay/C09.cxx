// Native replay for C09: BissectionAlgorithmBase<double>::getNextRootEstimate of the working tree on the bracket of a counterexample.
// args: xmin fmin xmax fmax as hexadecimal bit patterns of doubles
#include <cstdint>
#include <cstdio>
#include <cstdlib>
#include <cstring>
#include <cmath>
#include "TFEL/Config/TFELConfig.hxx"
#include <limits>
#include <ostream>
#include "TFEL/Math/NonLinearSolvers/BissectionAlgorithmBase.hxx"
struct B : tfel::math::BissectionAlgorithmBase<double> {
  void set(double a, double fa, double b, double fb) { this->xmin = a; this->fmin = fa; this->xmax = b; this->fmax = fb; }
};
static double bits(const char* s) { const uint64_t u = strtoull(s, nullptr, 16); double d; std::memcpy(&d, &u, 8); return d; }
int main(int argc, char** argv) {
  if (argc < 5) return 2;
  const double xmin = bits(argv[1]), fmin = bits(argv[2]), xmax = bits(argv[3]), fmax = bits(argv[4]);
  B b; b.set(xmin, fmin, xmax, fmax);
  double x = 0;
  const bool r = b.getNextRootEstimate(x);
  std::printf("bracket [%.17g, %.17g], f = (%.17g, %.17g): getNextRootEstimate -> %d, x = %.17g\n", xmin, xmax, fmin, fmax, int(r), x);
  if (r && !(xmin <= x && x <= xmax)) { std::printf("REPRODUCED: the estimate is outside the valid bracket\n"); return 1; }
  std::printf("NOT-REPRODUCED\n");
  return 0;
}
