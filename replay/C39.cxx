// Native replay for C39/C40: the real template mfront::gb::integrate<Behaviour> instantiated at a scripted mock
// Behaviour. Each user-code member follows a script (return value / throw) given on the command line.
// usage: K0 policy init(0|1|t) bounds(n|t) pred(0|1|t) apriori(first second|t) integ(0 ok|1 fail|2 unreliable|t) apost(first second|t)
//        ienergy(n|t) denergy(n|t) sos(n|t)   expectation: "smt=<k>" | "frame"
#include <cstdio>
#include <cstdlib>
#include <cstring>
#include <stdexcept>
#include <string>
#include <utility>
#include "MFront/GenericBehaviour/Integrate.hxx"
struct Script { std::string init, bounds, pred, apriori, integ, apost, ie, de, sos; double ap2 = 1, apo2 = 1; } S;
static int n_export = 0, pred_smt = -1, int_smt = -1, n_sos = 0;
static void maythrow(const std::string& s) { if (s == "t") throw std::runtime_error("scripted exception"); }
struct Mock {
  using real = double; using stress = double; using speed = double; using massdensity = double;
  enum SMFlag { STANDARDTANGENTOPERATOR };
  enum SMType { ELASTIC, SECANTOPERATOR, TANGENTOPERATOR, CONSISTENTTANGENTOPERATOR, NOSTIFFNESSREQUESTED };
  enum IntegrationResult { SUCCESS, FAILURE, UNRELIABLE_RESULTS };
  struct BehaviourData {};
  explicit Mock(const mfront_gb_BehaviourData&) {}
  void setOutOfBoundsPolicy(const tfel::material::OutOfBoundsPolicy) {}
  bool initialize() { maythrow(S.init); return S.init != "0"; }
  void checkBounds() { maythrow(S.bounds); }
  bool computePredictionOperator(const SMFlag, const SMType t) { pred_smt = t; maythrow(S.pred); return S.pred != "0"; }
  std::pair<bool, real> computeAPrioriTimeStepScalingFactor(const real) { maythrow(S.apriori); return {S.apriori != "0", S.ap2}; }
  std::pair<bool, real> computeAPosterioriTimeStepScalingFactor(const real) { maythrow(S.apost); return {S.apost != "0", S.apo2}; }
  IntegrationResult integrate(const SMFlag, const SMType t) { int_smt = t; maythrow(S.integ); return S.integ == "1" ? FAILURE : (S.integ == "2" ? UNRELIABLE_RESULTS : SUCCESS); }
  real getMinimalTimeStepScalingFactor() const { return 0.1; }
  void exportStateData(mfront_gb_State& s) const { ++n_export; s.thermodynamic_forces[0] = 42; s.internal_state_variables[0] = 43; }
  tfel::math::st2tost2<1u, double> getTangentOperator() const { return tfel::math::st2tost2<1u, double>::Id(); }
  void computeInternalEnergy(real& e) const { maythrow(S.ie); e = 7; }
  void computeDissipatedEnergy(real& e) const { maythrow(S.de); e = 8; }
  real computeSpeedOfSound(const real&) const { ++n_sos; maythrow(S.sos); return 340; }
};
namespace tfel::material {
  template <> struct MechanicalBehaviourTraits<Mock> {
    static constexpr bool is_defined = true;
    static constexpr bool hasConsistentTangentOperator = true;
    static constexpr bool hasPredictionOperator = true;
    static constexpr bool hasComputeInternalEnergy = true;
    static constexpr bool hasComputeDissipatedEnergy = true;
  };
}
int main(int argc, char** argv) {
  if (argc < 14) { std::printf("usage error\n"); return 2; }
  double K[9 + 2] = {std::atof(argv[1])}; const int pol = std::atoi(argv[2]);
  S.init = argv[3]; S.bounds = argv[4]; S.pred = argv[5]; S.apriori = argv[6]; S.ap2 = std::atof(argv[7]); S.integ = argv[8]; S.apost = argv[9]; S.apo2 = std::atof(argv[10]);
  S.ie = argv[11]; S.de = argv[12]; S.sos = argv[13]; const std::string expect = argv[14];
  double rdt = 1, sos = 0, rho0 = 1, rho1 = 1, f1[6] = {1, 1, 1, 1, 1, 1}, iv1[6] = {2, 2, 2, 2, 2, 2}, se0 = 3, se1 = 3, de0 = 4, de1 = 4;
  char msg[512];
  mfront_gb_BehaviourData d{}; d.error_message = msg; d.dt = 1; d.K = K; d.rdt = &rdt; d.speed_of_sound = &sos;
  d.s0.mass_density = &rho0; d.s0.stored_energy = &se0; d.s0.dissipated_energy = &de0;
  d.s1.mass_density = &rho1; d.s1.thermodynamic_forces = f1; d.s1.internal_state_variables = iv1; d.s1.stored_energy = &se1; d.s1.dissipated_energy = &de1;
  const int r = mfront::gb::integrate<Mock>(d, Mock::STANDARDTANGENTOPERATOR, static_cast<tfel::material::OutOfBoundsPolicy>(pol));
  const bool untouched = f1[0] == 1 && iv1[0] == 2 && se1 == 3 && de1 == 4;
  std::printf("K0=%g -> ret=%d pred_smt=%d int_smt=%d exports=%d sos_calls=%d output_state_%s\n", K[0] == K[0] ? std::atof(argv[1]) : 0., r, pred_smt, int_smt, n_export, n_sos, untouched ? "untouched" : "WRITTEN");
  bool bad = false;
  if (expect == "frame") bad = (r == -1 && !untouched);
  else if (expect.rfind("pred_smt=", 0) == 0) bad = pred_smt != std::atoi(expect.c_str() + 9);
  else if (expect.rfind("int_smt=", 0) == 0) bad = int_smt != std::atoi(expect.c_str() + 8);
  std::printf(bad ? "REPRODUCED on the real mfront::gb::integrate\n" : "NOT-REPRODUCED\n");
}
