// Native replay for C16: real tfel::math::ieee754 functions vs the platform libc on one bit pattern.
#include <bit>
#include <cmath>
#include <cstdint>
#include <cstdio>
#include <cstdlib>
#include <cstring>
#include <string>
#include "TFEL/Math/General/IEEE754.hxx"
extern "C" int __fpclassifyf(float);
extern "C" int __fpclassify(double);
extern "C" int __fpclassifyl(long double);
int main(int argc, char** argv) {
  const std::string job = argv[1];  // fpclassify_f, isnan_d, isfinite_l ...
  const char w = job.back();
  int tf, lc;
  if (w == 'f') { const auto x = std::bit_cast<float>(static_cast<std::uint32_t>(std::strtoul(argv[2], nullptr, 16))); tf = tfel::math::ieee754::fpclassify(x); lc = __fpclassifyf(x);
    if (job[2] == 'n') { tf = tfel::math::ieee754::isnan(x); lc = lc == FP_NAN; } else if (job[2] == 'f') { tf = tfel::math::ieee754::isfinite(x); lc = lc != FP_NAN && lc != FP_INFINITE; } }
  else if (w == 'd') { const auto x = std::bit_cast<double>(static_cast<std::uint64_t>(std::strtoull(argv[2], nullptr, 16))); tf = tfel::math::ieee754::fpclassify(x); lc = __fpclassify(x);
    if (job[2] == 'n') { tf = tfel::math::ieee754::isnan(x); lc = lc == FP_NAN; } else if (job[2] == 'f') { tf = tfel::math::ieee754::isfinite(x); lc = lc != FP_NAN && lc != FP_INFINITE; } }
  else { long double x = 0; struct { std::uint64_t m; std::uint16_t se; } r{std::strtoull(argv[2], nullptr, 16), static_cast<std::uint16_t>(std::strtoul(argv[3], nullptr, 16))}; std::memcpy(&x, &r, 10);
    tf = tfel::math::ieee754::fpclassify(x); lc = __fpclassifyl(x);
    if (job[2] == 'n') { tf = tfel::math::ieee754::isnan(x); lc = lc == FP_NAN; } else if (job[2] == 'f') { tf = tfel::math::ieee754::isfinite(x); lc = lc != FP_NAN && lc != FP_INFINITE; } }
  std::printf("%s bits=%s%s tfel=%d libc=%d\n", job.c_str(), argv[2], argc > 3 ? argv[3] : "", tf, lc);
  std::printf(tf == lc ? "NOT-REPRODUCED\n" : "REPRODUCED: differs from the platform libc on the real code\n");
}
