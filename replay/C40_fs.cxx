// Native replay for C40 (finite-strain wrapper): mfront::gb::finite_strain::integrate<Mock> of the working tree
// (StandardFiniteStrainBehaviourIntegrate.hxx) with a scripted mock behaviour and the PK2 stress measure.
//  - a failing integration (ret -1) must leave d.s1.thermodynamic_forces untouched;
//  - a successful integration that proposes a smaller time step (ret 0) must deliver the converted stress.
// arg: integ = ok | fail ; apost2 = proposed time step factor (e.g. 0.5 -> ret 0)
#include <cmath>
#include <cstdio>
#include <cstdlib>
#include <cstring>
#include <string>
#include <utility>
#include "MFront/GenericBehaviour/Integrate.hxx"
#include "MFront/GenericBehaviour/GenericBehaviourTraits.hxx"
#include "MFront/GenericBehaviour/StandardFiniteStrainBehaviourIntegrate.hxx"
static std::string integ = "ok";
static double apo2 = 1;
struct Mock {
  using real = double; using stress = double; using speed = double; using massdensity = double;
  using SMFlag = tfel::material::FiniteStrainBehaviourTangentOperatorBase::Flag;
  enum SMType { ELASTIC, SECANTOPERATOR, TANGENTOPERATOR, CONSISTENTTANGENTOPERATOR, NOSTIFFNESSREQUESTED };
  enum IntegrationResult { SUCCESS, FAILURE, UNRELIABLE_RESULTS };
  struct BehaviourData {};
  explicit Mock(const mfront_gb_BehaviourData&) {}
  void setOutOfBoundsPolicy(const tfel::material::OutOfBoundsPolicy) {}
  bool initialize() { return true; }
  void checkBounds() {}
  bool computePredictionOperator(const tfel::material::FiniteStrainBehaviourTangentOperatorBase::Flag, const SMType) { return true; }
  std::pair<bool, real> computeAPrioriTimeStepScalingFactor(const real) { return {true, 1}; }
  std::pair<bool, real> computeAPosterioriTimeStepScalingFactor(const real) { return {true, apo2}; }
  IntegrationResult integrate(const tfel::material::FiniteStrainBehaviourTangentOperatorBase::Flag, const SMType) { return integ == "fail" ? FAILURE : SUCCESS; }
  real getMinimalTimeStepScalingFactor() const { return 0.1; }
  // the behaviour computes a Cauchy stress of 100 MPa along x
  void exportStateData(mfront_gb_State& s) const { for (int i = 0; i < 6; ++i) s.thermodynamic_forces[i] = 0; s.thermodynamic_forces[0] = 100; }
  tfel::material::FiniteStrainBehaviourTangentOperator<3u, double> getTangentOperator() const { return {}; }
  real computeSpeedOfSound(const real&) const { return 340; }
};
namespace tfel::material {
  template <> struct MechanicalBehaviourTraits<Mock> {
    static constexpr bool is_defined = true;
    static constexpr bool hasConsistentTangentOperator = true;
    static constexpr bool hasPredictionOperator = true;
    static constexpr bool hasComputeInternalEnergy = false;
    static constexpr bool hasComputeDissipatedEnergy = false;
  };
}
namespace mfront::gb {
  template <> struct GenericBehaviourTraits<Mock> {
    static constexpr auto hypothesis = tfel::material::ModellingHypothesis::TRIDIMENSIONAL;
    static constexpr bool has_axial_deformation_gradient_offset = false;
  };
}
int main(int argc, char** argv) {
  if (argc > 1) integ = argv[1];
  if (argc > 2) apo2 = std::atof(argv[2]);
  // K[0] = 0: integration without operator; K[1] = 1: PK2 stress measure expected by the caller; K[2]: tangent operator kind
  double K[81 + 3] = {0, 1, 0};
  double rdt = 1, sos = 0, rho0 = 1, rho1 = 1, se0 = 0, se1 = 0, de0 = 0, de1 = 0, iv0[1] = {0}, iv1[1] = {0};
  double F0[9] = {1, 1, 1, 0, 0, 0, 0, 0, 0}, F1[9] = {2, 1, 1, 0, 0, 0, 0, 0, 0};  // stretch of 2 along x at the end of the step
  double f0[6] = {0, 0, 0, 0, 0, 0}, f1[6] = {-7, -7, -7, -7, -7, -7};              // sentinel values in the caller's output buffer
  char msg[512];
  mfront_gb_BehaviourData d{}; d.error_message = msg; d.dt = 1; d.K = K; d.rdt = &rdt; d.speed_of_sound = &sos;
  d.s0.gradients = F0; d.s1.gradients = F1; d.s0.thermodynamic_forces = f0; d.s1.thermodynamic_forces = f1;
  d.s0.internal_state_variables = iv0; d.s1.internal_state_variables = iv1;
  d.s0.mass_density = &rho0; d.s0.stored_energy = &se0; d.s0.dissipated_energy = &de0;
  d.s1.mass_density = &rho1; d.s1.stored_energy = &se1; d.s1.dissipated_energy = &de1;
  const int r = mfront::gb::finite_strain::integrate<Mock>(d, tfel::material::None);
  const bool untouched = f1[0] == -7 && f1[1] == -7 && f1[5] == -7;
  // PK2 = J F^-1 sigma F^-T with F = diag(2,1,1), sigma_xx = 100: S_xx = 2 * 100 / 4 = 50
  const bool converted = std::fabs(f1[0] - 50) < 1e-9;
  std::printf("integration %s, proposed time step factor %g -> ret=%d, caller's s1 stress = (%g, %g, ...): %s\n", integ.c_str(), apo2, r, f1[0], f1[1],
              untouched ? "untouched" : (converted ? "converted second Piola-Kirchhoff stress" : "WRITTEN with something else"));
  bool bad = false;
  if (r == -1 && !untouched) bad = true;
  if (r >= 0 && !converted) bad = true;
  std::printf(bad ? "REPRODUCED: the finite-strain wrapper writes the output stress on failure or leaves it stale on success\n" : "NOT-REPRODUCED\n");
  return bad ? 1 : 0;
}
