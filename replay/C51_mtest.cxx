#include <cstdio>
#include <cstdlib>
#include <cmath>
#include <fstream>
#include <bit>
#include <cstdint>
#include "TFEL/Utilities/TextData.hxx"
#include "MTest/CurrentState.hxx"
#include "MTest/TextDataUtilities.hxx"
#include "MTest/ReferenceFileComparisonTest.hxx"
#include "MTest/MTest.hxx"
namespace mtest {  // replay-side stubs: the formula-based constructor is not exercised; UTest key function lives in MTest.cxx
  MTest::UTest::~UTest() = default;
  std::vector<real> eval(const tfel::utilities::TextData&, const EvolutionManager&, const std::string&) { return {}; }
}
static double D(const char* h) { return std::bit_cast<double>(static_cast<std::uint64_t>(std::strtoull(h, nullptr, 16))); }
int main(int argc, char** argv) {
  // usage: eps v ref   (hex)
  const double eps = D(argv[1]), v = D(argv[2]), ref = D(argv[3]);
  { std::ofstream f("replay_m.res"); f.precision(17); f << "0 "; if (std::isnan(ref)) f << "nan"; else if (std::isinf(ref)) f << (ref > 0 ? "inf" : "-inf"); else f << ref; f << "\n"; }
  tfel::utilities::TextData d("replay_m.res");
  mtest::ReferenceFileComparisonTest t(d, 2u, "x", [v](const mtest::CurrentState&) { return v; }, eps);
  alignas(64) static char buf[sizeof(mtest::CurrentState)];
  const auto& s = *reinterpret_cast<const mtest::CurrentState*>(buf);
  bool threw = false;
  try { t.check(s, 0., 1., 0u); } catch (...) { threw = true; }
  const bool pass = !threw && t.getResults().success();
  std::printf("v=%g ref=%g eps=%g -> %s\n", v, ref, eps, threw ? "THROWN" : (pass ? "PASS" : "FAIL"));
  const bool ok = std::isfinite(v) && std::isfinite(ref) && std::fabs(v - ref) <= eps;
  std::printf((pass && !ok) ? "REPRODUCED: test passes although the value is not finite-and-within-eps\n" : "NOT-REPRODUCED\n");
}
