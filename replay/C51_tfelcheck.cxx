#include <cstdio>
#include <cstdlib>
#include <cmath>
#include <fstream>
#include <memory>
#include <bit>
#include <cstdint>
#include <string>
#include <limits>
#include <algorithm>
#include "TFEL/Check/Column.hxx"
#include "TFEL/Check/AbsoluteComparison.hxx"
#include "TFEL/Check/RelativeComparison.hxx"
#include "TFEL/Check/RelativeAndAbsoluteComparison.hxx"
#include "TFEL/Check/MixedComparison.hxx"
using namespace tfel::check;
// Column's member functions (replay-side definitions: Column.cxx drags in the formula evaluator; the code under contract is *Comparison::compare)
namespace tfel::check {
  Column::Column(Column&&) noexcept = default;
  Column::Column(const Column&) = default;
  Column& Column::operator=(Column&&) noexcept = default;
  Column& Column::operator=(const Column&) = default;
  Column::Column(const int n) : num(n), byName(false) { this->name = std::to_string(n); }
  Column::Column(std::string n) : name(std::move(n)), num(0), byName(true) {}
  std::string Column::getName() const { return this->name; }
  const std::vector<double>& Column::getValues() { return this->values; }
  void Column::clearValues() { this->values.clear(); }
  void Column::resizeValues(std::vector<double>::size_type s) { this->values.resize(s); }
  void Column::setValue(unsigned pos, double v) { this->values.at(pos) = v; }
  void Column::setFilename(std::string file) { this->f = file; this->data = std::make_shared<tfel::utilities::TextData>(file, "alcyone"); }
  const std::string& Column::getFilename() const { return this->f; }
  std::shared_ptr<const tfel::utilities::TextData> Column::getData() const { return this->data; }
  Column::~Column() = default;
}
static double D(const char* h) { return std::bit_cast<double>(static_cast<std::uint64_t>(std::strtoull(h, nullptr, 16))); }
int main(int argc, char** argv) {
  // usage: kind prec prec2 n a_0..a_{n-1} b_0..b_{n-1}   (hex bit patterns): the columns of the counterexample
  const std::string kind = argv[1];
  const double prec = D(argv[2]), prec2 = D(argv[3]);
  const unsigned n = static_cast<unsigned>(std::atoi(argv[4]));
  { std::ofstream f("replay.res"); for (unsigned i = 0; i < n; ++i) f << "0 0\n"; }
  auto c1 = std::make_shared<Column>(1), c2 = std::make_shared<Column>(2);
  c1->setFilename("replay.res"); c2->setFilename("replay.res");
  c1->resizeValues(n); c2->resizeValues(n);
  bool bad_input = false;
  for (unsigned i = 0; i < n; ++i) {
    const double a = D(argv[5 + i]), b = D(argv[5 + n + i]);
    c1->setValue(i, a); c2->setValue(i, b);
    bool within = false;
    const double ae = std::abs(a - b), re = ae / (std::min(std::abs(a), std::abs(b)) + 100. * std::numeric_limits<double>::min());
    if (kind == "AbsoluteComparison_compare") within = ae <= prec;
    else if (kind == "RelativeComparison_compare") within = re <= prec;
    else if (kind == "RelativeAndAbsoluteComparison_compare") within = (re <= prec) || (ae <= prec2);
    else within = (ae - prec * b - prec2) <= 0;
    if (!(std::isfinite(a) && std::isfinite(b) && within)) bad_input = true;
    std::printf("row %u: a=%g b=%g %s\n", i, a, b, (std::isfinite(a) && std::isfinite(b) && within) ? "ok" : "OUT");
  }
  std::shared_ptr<Comparison> c;
  if (kind == "AbsoluteComparison_compare") c = std::make_shared<AbsoluteComparison>();
  else if (kind == "RelativeComparison_compare") c = std::make_shared<RelativeComparison>();
  else if (kind == "RelativeAndAbsoluteComparison_compare") c = std::make_shared<RelativeAndAbsoluteComparison>();
  else c = std::make_shared<MixedComparison>();
  c->setParameters(c1, c2, prec, prec2, nullptr, "none", false, nullptr, nullptr);
  c->compare();
  const bool ok = c->hasSucceed();
  std::printf("%s n=%u prec=%g prec2=%g -> %s\n", kind.c_str(), n, prec, prec2, ok ? "SUCCESS" : "FAILURE");
  std::printf((ok == bad_input) ? "REPRODUCED: verdict of the real code disagrees with the rows (success with a bad row, or failure with none)\n" : "NOT-REPRODUCED\n");
}
